(* C02 part C — byte-level packet classification of the pack caches.
   media/cache/h264cache.go, hevccache.go: getPalyloadType + the flag priority of CachePack;
   media/cache/flvcache.go + av/format/flv/tag.go: tag classification and PushTo.
   Every Go index expression is a checked access here; an index out of range is the explicit
   outcome [FPanic] / [CPanic].  Since the repair of D11 (/repo 5bcf7ee, 3483165) the STAP-A / AP
   scan guards every access, so no payload reaches that outcome (classify_total); before it a
   truncated size field panicked (kept as agg_scan_unchecked_refuted in the proofs).
   Bytes are Z in 0..255.
   No proofs here (Proofs/C02ClassifyProofs.v). *)
From Coq Require Import ZArith List Bool.
From V Require Import StreamLts Cache.
Import ListNotations.
Open Scope Z_scope.

Record flags := mkF { f_vps : bool; f_sps : bool; f_pps : bool; f_key : bool }.
Definition f0 : flags := mkF false false false false.
Definition set_vps (f : flags) := mkF true (f_sps f) (f_pps f) (f_key f).
Definition set_sps (f : flags) := mkF (f_vps f) true (f_pps f) (f_key f).
Definition set_pps (f : flags) := mkF (f_vps f) (f_sps f) true (f_key f).
Definition set_key (f : flags) := mkF (f_vps f) (f_sps f) (f_pps f) true.

Inductive fres := FOk (f : flags) | FPanic | FFuel.

(* H264Cache.nalType *)
Definition h264_nal_type (t : Z) (f : flags) : flags :=
  if t =? 7 then set_sps f else if t =? 8 then set_pps f else if t =? 5 then set_key f else f.

(* HevcCache.nalType: IRAP range first (returns), then the parameter sets *)
Definition hevc_nal_type (t : Z) (f : flags) : flags :=
  if (16 <=? t) && (t <=? 21) then set_key f
  else if t =? 32 then set_vps f else if t =? 33 then set_sps f else if t =? 34 then set_pps f else f.

Definition h264_hdr_type (h : Z) : Z := Z.land h 31.
Definition hevc_hdr_type (h : Z) : Z := Z.land (Z.shiftr h 1) 63.

(* the scan over an aggregation packet (STAP-A family / AP), as repaired in /repo 5bcf7ee, 3483165:
     for { if off+2 > len { return }                       // truncated size field
           size := payload[off]<<8 | payload[off+1]; if size < 1 { return }
           off += 2; if off >= len { return }               // size field without a NAL unit
           nalType(type(payload[off])); off += size; if off >= len { break } }
   A return hands back the flags collected so far.  The index expressions stay checked accesses
   ([FPanic] on failure); [classify_total] shows the guards make them unreachable.
   [fuel] only makes the recursion structural: off grows by >= 3 per round, so
   fuel = length payload is never used up. *)
Fixpoint agg_scan (hdr_type : Z -> Z) (upd : Z -> flags -> flags)
         (fuel : nat) (payload : list Z) (off : nat) (f : flags) : fres :=
  match fuel with
  | O => FFuel
  | S fuel' =>
      if (length payload <? off + 2)%nat then FOk f else
      match nth_error payload off, nth_error payload (S off) with
      | Some b0, Some b1 =>
          let size := b0 * 256 + b1 in
          if size <? 1 then FOk f
          else if (length payload <=? off + 2)%nat then FOk f
          else match nth_error payload (off + 2) with
               | Some h =>
                   let f' := upd (hdr_type h) f in
                   let off' := (off + 2 + Z.to_nat size)%nat in
                   if (length payload <=? off')%nat then FOk f'
                   else agg_scan hdr_type upd fuel' payload off' f'
               | None => FPanic
               end
      | _, _ => FPanic
      end
  end.

(* H264Cache.getPalyloadType *)
Definition h264_flags (payload : list Z) : fres :=
  if (length payload <? 3)%nat then FOk f0 else
  match payload with
  | b0 :: _ =>
      let t := h264_hdr_type b0 in
      if (24 <=? t) && (t <=? 27) then       (* STAP-A, STAP-B, MTAP16, MTAP24 *)
        agg_scan h264_hdr_type h264_nal_type (length payload) payload 1 f0
      else if (t =? 28) || (t =? 29) then    (* FU-A, FU-B *)
        match nth_error payload 1 with
        | Some fh => if Z.land (Z.shiftr fh 7) 1 =? 1
                     then FOk (h264_nal_type (Z.land fh 31) f0) else FOk f0
        | None => FPanic
        end
      else FOk (h264_nal_type t f0)
  | [] => FOk f0
  end.

(* HevcCache.getPalyloadType *)
Definition hevc_flags (payload : list Z) : fres :=
  if (length payload <? 3)%nat then FOk f0 else
  match payload with
  | b0 :: _ =>
      let t := hevc_hdr_type b0 in
      if t =? 48 then                        (* AP *)
        agg_scan hevc_hdr_type hevc_nal_type (length payload) payload 2 f0
      else if t =? 49 then                   (* FU *)
        match nth_error payload 2 with
        | Some fh => if Z.land (Z.shiftr fh 7) 1 =? 1
                     then FOk (hevc_nal_type (Z.land fh 63) f0) else FOk f0
        | None => FPanic
        end
      else FOk (hevc_nal_type t f0)
  | [] => FOk f0
  end.

(* ---- CachePack: from flags to the packet kind of Model/Cache.v ---- *)
Inductive cres := CK (k : Z) | CPanic | CFuel.

Inductive codec := H264 | H265.

(* H264Cache.CachePack: sps, then pps, then key; HevcCache.CachePack: vps, sps, pps, key *)
Definition kind_of_flags (c : codec) (f : flags) : Z :=
  match c with
  | H264 => if f_sps f then 3 else if f_pps f then 4 else if f_key f then 2 else 1
  | H265 => if f_vps f then 5 else if f_sps f then 3 else if f_pps f then 4 else if f_key f then 2 else 1
  end.

Definition codec_flags (c : codec) (payload : list Z) : fres :=
  match c with H264 => h264_flags payload | H265 => hevc_flags payload end.

(* channel 0 = rtp.ChannelVideo; everything else is ignored by the RTP caches (kind 0) *)
Definition classify (c : codec) (channel : Z) (payload : list Z) : cres :=
  if negb (channel =? 0) then CK 0 else
  match codec_flags c payload with
  | FOk f => CK (kind_of_flags c f)
  | FPanic => CPanic
  | FFuel => CFuel
  end.

(* ---- a small packetiser (RFC 6184 / RFC 7798 payload formats) for the theorem ---- *)

(* one NAL unit = header byte(s) ++ body; class of a unit by its type *)
Definition hdr_len (c : codec) : nat := match c with H264 => 1%nat | H265 => 2%nat end.

Definition nal_type (c : codec) (nal : list Z) : Z :=
  match nal with
  | h :: _ => match c with H264 => h264_hdr_type h | H265 => hevc_hdr_type h end
  | [] => 0
  end.

(* 1 plain video, 2 IDR / IRAP, 3 SPS, 4 PPS, 5 VPS *)
Definition type_class (c : codec) (t : Z) : Z :=
  match c with
  | H264 => if t =? 7 then 3 else if t =? 8 then 4 else if t =? 5 then 2 else 1
  | H265 => if (16 <=? t) && (t <=? 21) then 2
            else if t =? 32 then 5 else if t =? 33 then 3 else if t =? 34 then 4 else 1
  end.
Definition nal_class (c : codec) (nal : list Z) : Z := type_class c (nal_type c nal).
Definition is_param_class (k : Z) : bool := (k =? 3) || (k =? 4) || (k =? 5).

(* types that are payload structures, not NAL units *)
Definition is_unit_type (c : codec) (t : Z) : bool :=
  match c with
  | H264 => negb ((24 <=? t) && (t <=? 29))
  | H265 => negb ((t =? 48) || (t =? 49))
  end.

Definition agg_entry (nal : list Z) : list Z :=
  let n := Z.of_nat (length nal) in [n / 256; n mod 256] ++ nal.

(* aggregation packet header: STAP-A (type 24, any F/NRI bits [x]) / AP (type 48, second byte [y]) *)
Definition agg_header (c : codec) (x y : Z) : list Z :=
  match c with
  | H264 => [Z.lor (Z.land x 224) 24]
  | H265 => [Z.lor (Z.land x 129) 96; y]
  end.

(* fragmentation unit [i] of [n]: FU indicator / PayloadHdr, FU header with S on the first and
   E on the last fragment, then the piece of the body *)
Definition fu_packet (c : codec) (nal : list Z) (first last : bool) (piece : list Z) : list Z :=
  let s := if first then 128 else 0 in
  let e := if last then 64 else 0 in
  match c, nal with
  | H264, h :: _ => [Z.lor (Z.land h 224) 28; s + e + h264_hdr_type h] ++ piece
  | H265, h0 :: h1 :: _ => [Z.lor (Z.land h0 129) 98; h1; s + e + hevc_hdr_type h0] ++ piece
  | _, _ => []
  end.

Fixpoint fu_split (c : codec) (nal : list Z) (first : bool) (body : list Z) (sizes : list nat)
  : list (list Z) :=
  match sizes with
  | [] => []
  | n :: sizes' =>
      fu_packet c nal first (match sizes' with [] => true | _ => false end) (firstn n body)
      :: fu_split c nal false (skipn n body) sizes'
  end.

Inductive pform :=
| PSingle (nal : list Z)                       (* single NAL unit packet *)
| PAgg (x y : Z) (nals : list (list Z))        (* aggregation packet *)
| PFrag (nal : list Z) (sizes : list nat).     (* fragmentation units with these body piece sizes *)

Definition packetise (c : codec) (f : pform) : list (list Z) :=
  match f with
  | PSingle nal => [nal]
  | PAgg x y nals => [agg_header c x y ++ concat (map agg_entry nals)]
  | PFrag nal sizes => fu_split c nal true (skipn (hdr_len c) nal) sizes
  end.

Definition byte_ok (b : Z) : bool := (0 <=? b) && (b <? 256).

Definition nal_ok (c : codec) (nal : list Z) : bool :=
  (hdr_len c <=? length nal)%nat && forallb byte_ok (firstn (hdr_len c) nal) &&
  is_unit_type c (nal_type c nal).

Fixpoint sum_nat (l : list nat) : nat := match l with [] => O | n :: l' => (n + sum_nat l')%nat end.

(* the packetisations the theorem covers: a unit alone (at least 3 bytes, below which the caches
   do not look at the packet at all), an aggregation packet of any units (the property's cases
   "only parameter sets" and "only that unit" are [agg_only_params], [agg_single]), fragments of
   any sizes >= 1 *)
Definition agg_only_params (c : codec) (nals : list (list Z)) : bool :=
  forallb (fun nal => is_param_class (nal_class c nal)) nals.
Definition agg_single (nals : list (list Z)) : bool := match nals with [_] => true | _ => false end.

Definition pform_ok (c : codec) (f : pform) : bool :=
  match f with
  | PSingle nal => nal_ok c nal && (3 <=? length nal)%nat
  | PAgg x y nals =>
      byte_ok x && negb (match nals with [] => true | _ => false end) &&
      forallb (fun nal => nal_ok c nal && (Z.of_nat (length nal) <? 65536)) nals
  | PFrag nal sizes =>
      nal_ok c nal && negb (match sizes with [] => true | _ => false end) &&
      forallb (fun n => (1 <=? n)%nat) sizes &&
      (sum_nat sizes =? length nal - hdr_len c)%nat
  end.

(* highest-priority class present (VPS > SPS > PPS), the slot CachePack stores the packet in *)
Definition agg_class (c : codec) (nals : list (list Z)) : Z :=
  let ks := map (nal_class c) nals in
  if existsb (Z.eqb 5) ks then 5 else if existsb (Z.eqb 3) ks then 3
  else if existsb (Z.eqb 4) ks then 4 else if existsb (Z.eqb 2) ks then 2 else 1.

(* what the packets of a packetisation must be classified as *)
Definition expected (c : codec) (f : pform) : list Z :=
  match f with
  | PSingle nal => [nal_class c nal]
  | PAgg _ _ nals => [agg_class c nals]
  | PFrag nal sizes => match sizes with [] => [] | _ :: sizes' => nal_class c nal :: map (fun _ => 1) sizes' end
  end.

(* ---- FLV: tag classification (av/format/flv/tag.go) and FlvCache ---- *)

Fixpoint starts_with (p l : list Z) : bool :=
  match p, l with
  | [], _ => true
  | x :: p', y :: l' => (x =? y) && starts_with p' l'
  | _ :: _, [] => false
  end.

(* AMF0 string marker 2, length 10, "onMetaData" *)
Definition on_meta_data : list Z := [2; 0; 10; 111; 110; 77; 101; 116; 97; 68; 97; 116; 97].

Definition flv_is_metadata (tt : Z) (d : list Z) : bool := (tt =? 18) && starts_with on_meta_data d.

Definition flv_h2645 (d0 : Z) : bool := (Z.land d0 15 =? 7) || (Z.land d0 15 =? 12).
Definition flv_frame_type (d0 : Z) : Z := Z.land (Z.shiftr d0 4) 15.

Definition flv_is_key (tt : Z) (d : list Z) : bool :=
  match d with
  | d0 :: _ :: _ => (tt =? 9) && flv_h2645 d0 && (flv_frame_type d0 =? 1)
  | _ => false
  end.
Definition flv_is_vsh (tt : Z) (d : list Z) : bool :=
  match d with
  | d0 :: d1 :: _ => (tt =? 9) && flv_h2645 d0 && (flv_frame_type d0 =? 1) && (d1 =? 0)
  | _ => false
  end.
Definition flv_is_ash (tt : Z) (d : list Z) : bool :=
  match d with
  | d0 :: d1 :: _ => (tt =? 8) && (Z.land (Z.shiftr d0 4) 15 =? 10) && (d1 =? 0)
  | _ => false
  end.

(* FlvCache.CachePack order: metadata, video sequence header, audio sequence header, key frame;
   every other tag (audio included) extends the GOP: kind 1, never 0 *)
Definition flv_classify (tt : Z) (d : list Z) : Z :=
  if flv_is_metadata tt d then 5 else if flv_is_vsh tt d then 3 else if flv_is_ash tt d then 4
  else if flv_is_key tt d then 2 else 1.

Record ftag := { t_id : Z; t_kind : Z; t_ts : Z }.

Record fcache := {
  fc_gopon : bool;
  fc_meta : option ftag; fc_vsh : option ftag; fc_ash : option ftag;
  fc_gop : list ftag
}.
Definition fc_empty (gopon : bool) : fcache :=
  {| fc_gopon := gopon; fc_meta := None; fc_vsh := None; fc_ash := None; fc_gop := [] |}.

Definition fc_add (c : fcache) (t : ftag) : fcache :=
  if t_kind t =? 5 then
    {| fc_gopon := fc_gopon c; fc_meta := Some t; fc_vsh := fc_vsh c; fc_ash := fc_ash c; fc_gop := fc_gop c |}
  else if t_kind t =? 3 then
    {| fc_gopon := fc_gopon c; fc_meta := fc_meta c; fc_vsh := Some t; fc_ash := fc_ash c; fc_gop := fc_gop c |}
  else if t_kind t =? 4 then
    {| fc_gopon := fc_gopon c; fc_meta := fc_meta c; fc_vsh := fc_vsh c; fc_ash := Some t; fc_gop := fc_gop c |}
  else if fc_gopon c then
    if t_kind t =? 2 then
      {| fc_gopon := true; fc_meta := fc_meta c; fc_vsh := fc_vsh c; fc_ash := fc_ash c; fc_gop := [t] |}
    else match fc_gop c with
         | [] => c
         | _ => {| fc_gopon := true; fc_meta := fc_meta c; fc_vsh := fc_vsh c; fc_ash := fc_ash c;
                   fc_gop := fc_gop c ++ [t] |}
         end
  else c.

Definition restamp (ts : Z) (t : ftag) : ftag := {| t_id := t_id t; t_kind := t_kind t; t_ts := ts |}.

Definition fc_init_ts (c : fcache) : Z := match fc_gop c with [] => 0 | t :: _ => t_ts t end.

(* FlvCache.PushTo: the queue contents, and the cache afterwards (the header tags are copied
   before they are re-stamped, so the cache is left as it was) *)
Definition fc_push (c : fcache) : fcache * list ftag :=
  let ts := fc_init_ts c in
  (c, map (restamp ts) (opt_list (fc_meta c) ++ opt_list (fc_vsh c) ++ opt_list (fc_ash c)) ++ fc_gop c).

(* the FLV cache seen through the packet abstraction of the LTS *)
Definition ftag_pkt (t : ftag) : pkt := {| p_id := t_id t; p_kind := t_kind t |}.

(* ---- what the correspondence check runs and the oracle it applies ---- *)

Fixpoint zlist_eqb (a b : list Z) : bool :=
  match a, b with
  | [], [] => true
  | x :: a', y :: b' => (x =? y) && zlist_eqb a' b'
  | _, _ => false
  end.

Definition cres_code (r : cres) : Z := match r with CK k => k | CPanic => -1 | CFuel => -2 end.

(* RTP caches: packets = (channel, payload) *)
Definition cc_kinds (c : codec) (pkts : list (Z * list Z)) : list Z :=
  map (fun p => cres_code (classify c (fst p) (snd p))) pkts.

(* the packets whose CachePack completed: id = index, kind as classified (a packet whose
   classification panicked never reaches the cache state) *)
Fixpoint number_from (i : Z) (kinds : list Z) : list pkt :=
  match kinds with
  | [] => []
  | k :: ks => (if k <? 0 then [] else [ {| p_id := i; p_kind := k |} ]) ++ number_from (i + 1) ks
  end.

(* model prediction: kinds, and the ids PushTo delivers *)
Definition cc_pushed (gopon : bool) (kinds : list Z) : list Z :=
  map p_id (rc_snap (fold_left rc_add (number_from 0 kinds) (rc_empty gopon))).

(* oracle: the observed kinds are the classifier's and what PushTo delivered is the
   SPECIFICATION [spec_snap] of the observed kind sequence *)
Definition cc_ok (c : codec) (gopon : bool) (pkts : list (Z * list Z)) (okinds opushed : list Z) : bool :=
  zlist_eqb okinds (cc_kinds c pkts) &&
  zlist_eqb opushed (map p_id (spec_snap gopon (number_from 0 okinds))).

(* FLV cache: tags = (tagtype, timestamp, data) *)
Definition flv_kinds (tags : list (Z * Z * list Z)) : list Z :=
  map (fun t => flv_classify (fst (fst t)) (snd t)) tags.
Definition flv_tss (tags : list (Z * Z * list Z)) : list Z := map (fun t => snd (fst t)) tags.

Fixpoint ftags_from (i : Z) (kinds tss : list Z) : list ftag :=
  match kinds, tss with
  | k :: kinds', ts :: tss' => {| t_id := i; t_kind := k; t_ts := ts |} :: ftags_from (i + 1) kinds' tss'
  | _, _ => []
  end.

Definition flv_pushed (gopon : bool) (kinds tss : list Z) : list ftag :=
  snd (fc_push (fold_left fc_add (ftags_from 0 kinds tss) (fc_empty gopon))).

Definition flv_ok (gopon : bool) (tags : list (Z * Z * list Z))
           (okinds : list Z) (opushed : list (Z * Z)) (oorigs : list Z) : bool :=
  zlist_eqb okinds (flv_kinds tags) &&
  zlist_eqb oorigs (flv_tss tags) &&
  zlist_eqb (map fst opushed) (map p_id (spec_snap gopon (map ftag_pkt (ftags_from 0 okinds oorigs)))) &&
  zlist_eqb (map snd opushed) (map t_ts (flv_pushed gopon okinds oorigs)).
