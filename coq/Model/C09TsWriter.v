(* C09 — av/format/mpegts/writer.go: mpegtsHeader, WriteMpegtsFrame, writePcr,
   writePts, fillStuff.  Integers are Z; Go's byte(x) is [u8]; int64 shifts of a
   value whose low bits only are kept agree with the unbounded ones.
   No proofs here. *)
From Coq Require Import ZArith List Bool.
From V Require Import Bytes C09TsFrame.
Import ListNotations.
Open Scope Z_scope.

Definition u8 (z : Z) : Z := Z.land z 255.

(* ---- mpegtsHeader ---- *)
Definition pat_packet : bytes :=
  [0x47; 0x40; 0x00; 0x10; 0x00;
   0x00; 0xb0; 0x0d; 0x00; 0x01; 0xc1; 0x00; 0x00;
   0x00; 0x01; 0xf0; 0x01;
   0x2e; 0x70; 0x19; 0x05] ++ repeat_byte 0xff 167.
Definition pmt_packet : bytes :=
  [0x47; 0x50; 0x01; 0x10; 0x00;
   0x02; 0xb0; 0x17; 0x00; 0x01; 0xc1; 0x00; 0x00;
   0xe1; 0x00;
   0xf0; 0x00;
   0x1b; 0xe1; 0x00; 0xf0; 0x00;
   0x0f; 0xe1; 0x01; 0xf0; 0x00;
   0x2f; 0x44; 0xb9; 0x9b] ++ repeat_byte 0xff 157.
Definition mpegts_header : bytes := pat_packet ++ pmt_packet.

(* ---- writePcr ---- *)
Definition write_pcr (v : Z) : bytes :=
  [u8 (Z.shiftr v 25); u8 (Z.shiftr v 17); u8 (Z.shiftr v 9); u8 (Z.shiftr v 1);
   u8 (Z.lor (Z.shiftl v 7) 0x7e); 0].

(* ---- writePts ---- *)
Definition enc15 (v : Z) : bytes :=
  let val := Z.lor (Z.shiftl v 1) 1 in [u8 (Z.shiftr val 8); u8 val].
Definition write_pts (fb pts : Z) : bytes :=
  u8 (Z.lor (Z.lor (Z.shiftl fb 4) (Z.shiftl (Z.land (Z.shiftr pts 30) 0x07) 1)) 1)
  :: enc15 (Z.land (Z.shiftr pts 15) 0x7fff) ++ enc15 (Z.land pts 0x7fff).

(* ---- the four fixed bytes of a packet ---- *)
Definition ts_hdr4 (pid cc : Z) (first adapt : bool) : bytes :=
  [0x47;
   Z.lor (u8 (Z.land (Z.shiftr pid 8) 0x1f)) (if first then 0x40 else 0);
   u8 pid;
   Z.lor (u8 (Z.lor 0x10 (Z.land cc 0x0f))) (if adapt then 0x20 else 0)].

(* ---- PES header written into the first packet; [n] = len(Header)+len(Payload) ---- *)
Definition pes_header (f : tsframe) (n : Z) : bytes :=
  let two := negb (f_dts f =? f_pts f) in
  let headerSize := if two then 10 else 5 in
  let flags := if two then 0xc0 else 0x80 in
  let pesSize0 := n + headerSize + 3 in
  let pesSize := if pesSize0 >? 0xffff then 0 else pesSize0 in
  [0x00; 0x00; 0x01; u8 (f_sid f); u8 (Z.shiftr pesSize 8); u8 pesSize; 0x80; flags; headerSize]
  ++ write_pts (Z.shiftr flags 6) (f_pts f)
  ++ (if two then write_pts 1 (f_dts f) else []).

(* ---- one packet.  [pcr] = Some dts when the 8-byte adaptation field with PCR
   has been written (first packet of a key frame); [ph] = PES header (first
   packet) or [] ; [data] = what is left of Header++Payload.  Returns the
   188-byte packet and the unwritten rest.  The else-branch is fillStuff:
   - existing adaptation field: the PES header is moved up by stuffSize, the
     length byte grows, the gap keeps what was there before (the start of the
     PES header, then the zero-initialised array) — the Go code does not fill it;
   - no adaptation field: one is created; length stuffSize-1, flags 0, 0xff fill. *)
Definition ts_packet (pid cc : Z) (first : bool) (pcr : option Z) (ph data : bytes) : bytes * bytes :=
  let adapt := match pcr with Some v => [7; 0x50] ++ write_pcr v | None => [] end in
  let p := 4 + zlen adapt + zlen ph in
  let bodySize := 188 - p in
  (* last - pos, looked at only as far as it matters: min(last-pos, bodySize) decides the
     comparison identically and equals last-pos whenever the else-branch is taken *)
  let inSize := zlen (take bodySize data) in
  if bodySize <=? inSize then
    (ts_hdr4 pid cc first (match pcr with Some _ => true | None => false end)
       ++ adapt ++ ph ++ take bodySize data,
     drop bodySize data)
  else
    let stuffSize := bodySize - inSize in
    match pcr with
    | Some v =>
        (ts_hdr4 pid cc first true ++ [u8 (7 + stuffSize); 0x50] ++ write_pcr v
           ++ take stuffSize (ph ++ repeat_byte 0 188) ++ ph ++ data, [])
    | None =>
        (ts_hdr4 pid cc first true ++ [u8 (stuffSize - 1)]
           ++ (if 2 <=? stuffSize then 0 :: repeat_byte 0xff (stuffSize - 2) else [])
           ++ ph ++ data, [])
    end.

(* the loop after the first packet; fuel >= number of remaining bytes suffices *)
Fixpoint ts_cont (fuel : nat) (pid cc : Z) (data : bytes) : list bytes * Z :=
  match fuel with
  | O => ([], cc)
  | S k =>
      match data with
      | [] => ([], cc)
      | _ =>
          let cc' := cc + 1 in
          let '(pkt, rest) := ts_packet pid cc' false None [] data in
          let '(more, ccf) := ts_cont k pid cc' rest in
          (pkt :: more, ccf)
      end
  end.

(* WriteMpegtsFrame for one frame given the counter of its PID: packets and new counter *)
Definition ts_frame_packets (cc : Z) (f : tsframe) : list bytes * Z :=
  match f_pay f with
  | [] => ([], cc)
  | _ =>
      let data := f_hdr f ++ f_pay f in
      let cc' := cc + 1 in
      let '(pkt, rest) := ts_packet (f_pid f) cc' true
                            (if f_key f then Some (f_dts f) else None)
                            (pes_header f (zlen data)) data in
      let '(more, ccf) := ts_cont (length rest) (f_pid f) cc' rest in
      (pkt :: more, ccf)
  end.

(* Writer state: videoCC, audioCC *)
Definition wstate := (Z * Z)%type.
Definition ts_write (st : wstate) (f : tsframe) : list bytes * wstate :=
  let '(vcc, acc) := st in
  if f_pid f =? TS_AUDIO_PID then
    let '(pk, c) := ts_frame_packets acc f in (pk, (vcc, c))
  else
    let '(pk, c) := ts_frame_packets vcc f in (pk, (c, acc)).

Fixpoint ts_write_list (st : wstate) (fs : list tsframe) : list bytes * wstate :=
  match fs with
  | [] => ([], st)
  | f :: fs' =>
      let '(pk, st') := ts_write st f in
      let '(more, stf) := ts_write_list st' fs' in
      (pk ++ more, stf)
  end.

(* NewWriter followed by WriteMpegtsFrame for every frame: the bytes in the buffer *)
Definition ts_stream_packets (fs : list tsframe) : list bytes :=
  [pat_packet; pmt_packet] ++ fst (ts_write_list (0, 0) fs).
Definition ts_write_all (fs : list tsframe) : bytes := concat (ts_stream_packets fs).

(* ---- source frames through the packetizers into the writer ---- *)
Inductive mux_result := MuxBytes (b : bytes) | MuxPanic.

Fixpoint packetize_all (a : C09Adts.asc) (afs : list aframe) : option (list tsframe) :=
  match afs with
  | [] => Some []
  | af :: afs' =>
      match packetize (a_sps af) (a_pps af) a (a_c af) with
      | PkPanic => None
      | PkSkip => packetize_all a afs'
      | PkFrame f =>
          match packetize_all a afs' with
          | Some l => Some (f :: l)
          | None => None
          end
      end
  end.

(* [sps0] [pps0]: the meta when the muxer is created; every frame is packetized with the
   parameter sets current at that moment (h264Packetizer reads h264p.meta on every call) *)
Definition mux_events (sps0 pps0 : bytes) (a : C09Adts.asc) (evs : list mevent) : mux_result :=
  match packetize_all a (annotate sps0 pps0 evs) with
  | Some fs => MuxBytes (ts_write_all fs)
  | None => MuxPanic
  end.

Definition mux_all (sps pps : bytes) (a : C09Adts.asc) (cs : list cframe) : mux_result :=
  mux_events sps pps a (map EvFrame cs).
