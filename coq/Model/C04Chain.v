(* C04 — the conversion chain.  RTP packets are published into a stream that has RTP consumers and FLV
   consumers.  The FLV consumers are served by the chain
        WriteRtpPacket -> rtp demuxer (one frame per single-NAL packet) -> FLV muxer / packetizer
                       -> Stream.WriteFlvTag -> FlvCache.CachePack -> consumption.send
   so the key flag that starts and stops THEIR dropping is the frame type the FLV packetizer writes
   (Model/C08Flv.v, [packetize] / [is_key]) as read back by the FLV cache (Model/C02Classify.v,
   [flv_classify]; composition in Model/C02FlvProducer.v).  The FLV side is an instance of the stream
   LTS of its own (own join mutex flvJoinLock, own cache, own consumer map) whose publisher is the
   muxer goroutine and whose packets are the tags: the three configuration tags (metadata, video
   sequence header, AAC sequence header: ids -1 -2 -3, kinds 5 3 4) in front of the first frame's
   tag, then one tag per frame, kind 2 iff [is_key] of the frame's first byte.

   A chain case is an LTS case (Model/LtsWire.v) whose packets are video packets given by their bytes
   (Model/C04RawPkt.v) and whose field 13 says per consumer whether it is an FLV consumer.
   No proofs here (Proofs/C04ChainProofs.v). *)
From Coq Require Import ZArith List Bool Arith.
From V Require Import Val StreamLts Cache C08Flv C02Classify C02FlvProducer LtsWire LtsOracle C04RawPkt C04Oracle.
Import ListNotations.
Local Open Scope Z_scope.

Record cpkt := { cp_id : Z; cp_ch : Z; cp_data : list Z }.
Definition dec_cpkt (v : val) : cpkt :=
  {| cp_id := as_int (nthv 0 v); cp_ch := as_int (nthv 2 v); cp_data := as_bytes (nthv 3 v) |}.

Definition codec_of (hevc : bool) : codec := if hevc then H265 else H264.

(* the RTP side: the packet as the RTP pack cache classifies it *)
Definition rtp_pkt (hevc : bool) (p : cpkt) : pkt := raw_pkt (codec_of hevc) (cp_id p) (cp_ch p) (cp_data p).

(* the rtp depacketizers hand a single-NAL packet on as one frame (H.264: types 1..23 except filler
   data; HEVC: everything but AP and FU) *)
Definition depack_single (hevc : bool) (b0 : Z) : bool :=
  if hevc then negb (C08Flv.h265_nal_type b0 =? 48) && negb (C08Flv.h265_nal_type b0 =? 49)
  else (1 <=? C08Flv.h264_nal_type b0) && (C08Flv.h264_nal_type b0 <=? 23) && negb (C08Flv.h264_nal_type b0 =? 12).

Definition cpkt_wf (hevc : bool) (p : cpkt) : bool :=
  (cp_ch p =? 0) && nal_ok (codec_of hevc) (cp_data p) && (3 <=? length (cp_data p))%nat &&
  depack_single hevc (hd 0 (cp_data p)) && (0 <=? cp_id p).

Definition chain_frame (p : cpkt) : frame := mkFrame 0 0 0 (cp_data p).

(* the FLV side: the tag the muxer writes for the frame, as the FLV cache classifies it *)
Definition tag_pkt (hevc : bool) (p : cpkt) : pkt :=
  {| p_id := cp_id p; p_kind := if C08Flv.is_key hevc (hd 0 (cp_data p)) then 2 else 1 |}.
Definition cfg_tags : list pkt :=
  [ {| p_id := -1; p_kind := 5 |}; {| p_id := -2; p_kind := 3 |}; {| p_id := -3; p_kind := 4 |} ].
Definition chain_tags (hevc : bool) (pkts : list cpkt) : list pkt :=
  match pkts with [] => [] | _ => cfg_tags ++ map (tag_pkt hevc) pkts end.

(* ---- the two sides of a chain case ---- *)
Definition is_flv (fl : list bool) (c : nat) : bool := nth c fl false.
Definition on_side (fl : list bool) (flv_side : bool) (t : tid) : bool :=
  match t with
  | TAtt c | TStop c | TCons c => Bool.eqb (is_flv fl c) flv_side
  | TPub | TClose => negb flv_side
  end.

(* number of tags the muxer writes when the j-th packet (0-based) has been broadcast *)
Definition ntags (j : nat) : nat := (if (j =? 0)%nat then 3 else 0) + 1.

Definition step_skip (V : variant) (maxq : nat) (gop : bool) (n : nat) (pa : nat -> nat)
           (s : lstate) (t : tid) : lstate :=
  match step V maxq rcache (rc_empty gop) rc_add rc_snap n pa s t with Some s' => s' | None => s end.

(* The FLV side's schedule: the steps of the FLV consumers' attachers and goroutines where they are,
   and, where a step of the RTP side completes the broadcast of packet j, the muxer goroutine's
   three steps (status check, cache, broadcast) for each of the [ntags j] tags. *)
Fixpoint flv_sched (stepR : lstate -> tid -> lstate) (fl : list bool) (sched : list tid) (s : lstate)
  : list tid :=
  match sched with
  | [] => []
  | t :: r =>
      let s' := if on_side fl false t then stepR s t else s in
      let j := length (s_sent _ s) in
      (if on_side fl true t then [t] else []) ++
      (if (j <? length (s_sent _ s'))%nat then repeat TPub (3 * ntags j) else []) ++
      flv_sched stepR fl r s'
  end.

(* the FLV consumers attach in one go (the muxer never finds flvJoinLock taken), no close, no stop *)
Fixpoint sched_wf (fl : list bool) (sched : list tid) : bool :=
  match sched with
  | [] => true
  | TAtt c :: r =>
      if is_flv fl c
      then match r with
           | TAtt c1 :: TAtt c2 :: r' => (c1 =? c)%nat && (c2 =? c)%nat && sched_wf fl r'
           | _ => false
           end
      else sched_wf fl r
  | TClose :: _ => false
  | TStop _ :: _ => false
  | _ :: r => sched_wf fl r
  end.

Record ccase := {
  cc_hevc : bool; cc_fl : list bool; cc_pkts : list cpkt;
  cc_rtp : lcase;      (* the RTP side *)
  cc_flv : lcase       (* the FLV side *)
}.

Definition dec_chain (v : val) : ccase :=
  let c := dec_lcase (norm_case v) in
  let hevc := as_bool (nthv 10 v) in
  let fl := map as_bool (as_list (nthv 13 v)) in
  let pkts := map dec_cpkt (as_list (nthv 4 v)) in
  let rtp := {| l_var := l_var c; l_n := l_n c; l_maxq := l_maxq c; l_gop := l_gop c; l_pkts := l_pkts c;
                l_stop := l_stop c; l_sched := filter (on_side fl false) (l_sched c); l_panic := l_panic c |} in
  let stepR := step_skip (l_var c) (l_maxq c) (l_gop c) (l_n c) (fun i => nth i (l_panic c) O) in
  let s0 := init rcache (rc_empty (l_gop c)) (l_pkts c) (fun i => nth i (l_stop c) false) in
  {| cc_hevc := hevc; cc_fl := fl; cc_pkts := pkts; cc_rtp := rtp;
     cc_flv := {| l_var := l_var c; l_n := l_n c; l_maxq := l_maxq c; l_gop := l_gop c;
                  l_pkts := chain_tags hevc pkts; l_stop := l_stop c;
                  l_sched := flv_sched stepR fl (l_sched c) s0; l_panic := l_panic c |} |}.

Definition chain_wf (v : val) : bool :=
  let cc := dec_chain v in
  forallb (cpkt_wf (cc_hevc cc)) (cc_pkts cc) && sched_wf (cc_fl cc) (l_sched (dec_lcase v)) &&
  negb (as_bool (nthv 8 v)).

(* observation of the FLV side: as [enc_state], but the number of tags still to come is reported as the
   number of frames still to come (the configuration tags are written together with the first frame) *)
Definition enc_flv_state (n : nat) (s : lstate) : val :=
  VL [ vlist (enc_cons s) (seq 0 n); VI (s_count _ s); vbool (s_ok _ s); VI (ppc_code (s_pp _ s));
       vnat (length (filter (fun p => 0 <=? p_id p) (s_todo _ s))); VI (kpc_code (s_kp _ s)) ].

(* prediction = (observation of the RTP side, observation of the FLV side) *)
Definition chain_run (v : val) : val :=
  let cc := dec_chain v in
  VL [ enc_state (l_n (cc_rtp cc)) (lrun (cc_rtp cc)); enc_flv_state (l_n (cc_flv cc)) (lrun (cc_flv cc)) ].

(* oracle: both sides pass [ok_C04x], each against the key-frame starts of its own packets - which are the
   same packets (Proofs/C04ChainProofs.v, flv_chain_key_agrees) *)
Definition chain_ok (v : val) (o : val) : bool :=
  if chain_wf v
  then ok_C04x (cc_rtp (dec_chain v)) (dec_obs (nthv 0 o)) && ok_C04x (cc_flv (dec_chain v)) (dec_obs (nthv 1 o))
  else true.
