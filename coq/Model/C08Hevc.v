(* C08 — the HEVCDecoderConfigurationRecord (ISO/IEC 14496-15 8.3.3.1) as a function of the stream's
   VPS and SPS, and the onMetaData width/height/frame rate as a function of the SPS.
   [hvcc_of_nals] mirrors flv.NewHEVCDecoderConfigurationRecord / init / applyPLT / Marshal on top of
   the C15 descriptions of hevc.H265RawVPS.Decode / H265RawSPS.Decode ([go_h265_vps], [go_h265_sps]);
   [hvcc_spec] is the record the standard asks for, stated on the syntax records (field values) from
   which the parameter sets are emitted; [hvcc_fields] is an independent reader of the 21 general
   bytes.  No proofs here. *)
From Coq Require Import ZArith List Bool.
From V Require Import Bytes C15BitFmt C15Ebsp C15H264 C15Hevc C08Amf0 C08Flv.
Import ListNotations.
Open Scope Z_scope.

(* a parameter set as the Go decoder sees it: None = Decode returned an error *)
Definition go_hevc_env (f : fmt) (nal : bytes) : option env :=
  match nal_bits nal with
  | None => None
  | Some bs => match parse f env0 bs with Some (a, _) => Some a | None => None end
  end.

(* general_* accumulator of HEVCDecoderConfigurationRecord *)
Record hacc := mkH { ha_space : Z; ha_tier : Z; ha_idc : Z; ha_compat : Z; ha_constr : Z; ha_level : Z;
                     ha_layers : Z }.
Definition hacc0 : hacc := mkH 0 0 0 4294967295 281474976710655 0 0.

(* the 48 general constraint bits: progressive/interlaced/non-packed/frame-only, 43 bits, inbld *)
Definition ptl_constr (a : env) : Z :=
  get a (h_ptl_src4 0) * 17592186044416 + get a (h_ptl_43 0) * 2 + get a (h_ptl_inbld 0).

(* init: MaxSubLayers, then applyPLT *)
Definition apply_ps (h : hacc) (a : env) : hacc :=
  let tier := get a (h_ptl_tier 0) in
  let lvl := get a (h_ptl_level 0) in
  let idc := get a (h_ptl_idc 0) in
  let lay := (get a h_max_sub + 1) mod 256 in
  mkH (get a (h_ptl_space 0))
      (if ha_tier h <? tier then tier else ha_tier h)
      (if ha_idc h <? idc then idc else ha_idc h)
      (Z.land (ha_compat h) (get a (h_ptl_compat 0)))
      (Z.land (ha_constr h) (ptl_constr a))
      (if ha_tier h <? tier then lvl else if ha_level h <? lvl then lvl else ha_level h)
      (if ha_layers h <? lay then lay else ha_layers h).

Definition be48 (v : Z) : bytes := c08_be16 (v / 4294967296) ++ c08_be32 (v mod 4294967296).

(* Marshal, bytes 1..21 *)
Definition hvcc_bytes (h : hacc) (nest chroma bdl bdc : Z) : bytes :=
  [(ha_space h * 64 + ha_tier h * 32 + ha_idc h) mod 256] ++ c08_be32 (ha_compat h) ++ be48 (ha_constr h) ++
  [ha_level h mod 256; 240; 0; 252; Z.lor (chroma mod 256) 252; Z.lor (bdl mod 256) 248; Z.lor (bdc mod 256) 248; 0; 0;
   (ha_layers h * 8 + nest * 4 + 3) mod 256].

Definition hvcc_of_envs (ov os : option env) : bytes :=
  match ov with
  | None => hvcc_bytes hacc0 0 0 0 0                   (* init returns at the VPS error *)
  | Some av =>
      let h := apply_ps hacc0 av in
      match os with
      | None => hvcc_bytes h 0 0 0 0                  (* init returns at the SPS error *)
      | Some a => hvcc_bytes (apply_ps h a) (get a h_nesting) (get a h_chroma) (get a h_bd_luma) (get a h_bd_chroma)
      end
  end.
Definition hvcc_of_nals (vps sps : bytes) : bytes :=
  hvcc_of_envs (go_hevc_env go_h265_vps vps) (go_hevc_env go_h265_sps sps).

(* ---- the record the standard asks for, on the field values (8.3.3.1.3): profile space of the
   stream, highest tier, a level not below the highest level of the highest tier (the SPS level when
   the SPS has the higher tier, else the greater of the two), greatest
   profile_idc, AND of the compatibility and constraint flags, chroma format and bit depths of the
   SPS, greatest number of temporal layers, temporalIdNested of the SPS; no spatial segmentation /
   parallelism / frame-rate information; 4-byte NAL lengths ---- *)
Record hfields := mkHF {
  hf_space : Z; hf_tier : Z; hf_idc : Z; hf_compat : Z; hf_constr : Z; hf_level : Z;
  hf_min_spatial : Z; hf_parallelism : Z; hf_chroma : Z; hf_bdl : Z; hf_bdc : Z;
  hf_avg_rate : Z; hf_const_rate : Z; hf_layers : Z; hf_nested : Z; hf_len_minus1 : Z }.

Definition hvcc_spec (av a : env) : hfields :=
  let tv := get av (h_ptl_tier 0) in let ts := get a (h_ptl_tier 0) in
  let lv := get av (h_ptl_level 0) in let ls := get a (h_ptl_level 0) in
  mkHF (get a (h_ptl_space 0))
       (Z.max tv ts)
       (Z.max (get av (h_ptl_idc 0)) (get a (h_ptl_idc 0)))
       (Z.land (get av (h_ptl_compat 0)) (get a (h_ptl_compat 0)))
       (Z.land (ptl_constr av) (ptl_constr a))
       (if tv <? ts then ls else Z.max lv ls)
       0 0 (get a h_chroma) (get a h_bd_luma) (get a h_bd_chroma) 0 0
       (Z.max (get av h_max_sub + 1) (get a h_max_sub + 1)) (get a h_nesting) 3.

(* independent reader of the 21 general bytes (14496-15 8.3.3.1.2) *)
Definition hvcc_fields (o : bytes) : hfields :=
  let b i := nth_byte o i in
  mkHF (b 0%nat / 64) (b 0%nat / 32 mod 2) (b 0%nat mod 32)
       (be_decode (firstn 4 (skipn 1 o))) (be_decode (firstn 6 (skipn 5 o))) (b 11%nat)
       (be_decode (firstn 2 (skipn 12 o)) mod 4096) (b 14%nat mod 4) (b 15%nat mod 4) (b 16%nat mod 8) (b 17%nat mod 8)
       (be_decode (firstn 2 (skipn 18 o))) (b 20%nat / 64) (b 20%nat / 8 mod 8) (b 20%nat / 4 mod 2) (b 20%nat mod 4).

Definition hfields_eqb (x y : hfields) : bool :=
  (hf_space x =? hf_space y) && (hf_tier x =? hf_tier y) && (hf_idc x =? hf_idc y) &&
  (hf_compat x =? hf_compat y) && (hf_constr x =? hf_constr y) && (hf_level x =? hf_level y) &&
  (hf_min_spatial x =? hf_min_spatial y) && (hf_parallelism x =? hf_parallelism y) &&
  (hf_chroma x =? hf_chroma y) && (hf_bdl x =? hf_bdl y) && (hf_bdc x =? hf_bdc y) &&
  (hf_avg_rate x =? hf_avg_rate y) && (hf_const_rate x =? hf_const_rate y) &&
  (hf_layers x =? hf_layers y) && (hf_nested x =? hf_nested y) && (hf_len_minus1 x =? hf_len_minus1 y).

(* the field values are within the widths of their descriptors (implied by a successful [emit];
   stated as a decidable guard), and fit the record: bit depths up to 15 bits, at most 7 layers *)
Definition ptl_ranges (a : env) : bool :=
  in_range 0 (get a (h_ptl_space 0)) 3 && in_range 0 (get a (h_ptl_tier 0)) 1 &&
  in_range 0 (get a (h_ptl_idc 0)) 31 && in_range 0 (get a (h_ptl_compat 0)) 4294967295 &&
  in_range 0 (get a (h_ptl_src4 0)) 15 && in_range 0 (get a (h_ptl_43 0)) 8796093022207 &&
  in_range 0 (get a (h_ptl_inbld 0)) 1 && in_range 0 (get a (h_ptl_level 0)) 255 &&
  in_range 0 (get a h_max_sub) 6.
Definition hvcc_ranges (av a : env) : bool :=
  ptl_ranges av && ptl_ranges a && in_range 0 (get a h_nesting) 1 && in_range 0 (get a h_chroma) 3 &&
  in_range 0 (get a h_bd_luma) 7 && in_range 0 (get a h_bd_chroma) 7.

(* ---- onMetaData width / height / frame rate when the stream's meta data come from the SPS
   (hevc.MetadataIsReady / h264.MetadataIsReady): (width, height, float64 bits) ---- *)
Definition derive_meta (hevc : bool) (sps : bytes) : Z * Z * Z :=
  match (if hevc then go_h265_obs sps else go_h264_obs sps) with
  | Some (w, h, f, _) => (w, h, f)
  | None => (0, 0, 0)
  end.

(* a configuration whose derived parts are computed from its parameter sets *)
Definition cfg_derived (c : cfg) (derive : bool) : cfg :=
  let '(w, h, f) := if derive then derive_meta (c_hevc c) (c_sps c) else (c_width c, c_height c, c_fr c) in
  mkCfg (c_hevc c) (c_sps c) (c_pps c) (c_vps c)
        (if c_hevc c then hvcc_of_nals (c_vps c) (c_sps c) else c_hvcc c)
        w h f (c_vdr c) (c_aac c) (c_asc c) (c_srate c) (c_ssize c) (c_chan c) (c_adr c) (c_date c).

(* oracle for the record alone: [obs] = the 21 general bytes the implementation wrote for the parameter
   sets emitted from the records [rv], [rs] *)
Definition hvcc_ok (rv rs : env) (obs : bytes) : bool :=
  match emit std_h265_vps rv env0, emit std_h265_sps rs env0 with
  | Some (bv, av), Some (bs, a) =>
      if nal_shape_ok (nal_of_bits bv) && nal_shape_ok (nal_of_bits bs) && hvcc_ranges av a
      then hfields_eqb (hvcc_fields obs) (hvcc_spec av a) && (length obs =? 21)%nat
      else true
  | _, _ => true
  end.
Definition hvcc_of_records (rv rs : env) : bytes :=
  match emit std_h265_vps rv env0, emit std_h265_sps rs env0 with
  | Some (bv, _), Some (bs, _) => hvcc_of_nals (nal_of_bits bv) (nal_of_bits bs)
  | _, _ => []
  end.
