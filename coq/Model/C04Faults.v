(* C04 — consumer faults in BOTH callbacks.
   Consumer.Consume of consumer c panics in its [panic_at c]-th call (Model/StreamLts.v).  Here the
   other callback, Consumer.Close, may fail too: it returns, it panics, or it never returns.  The
   deferred clean-up of consumption.consume() runs under a silent inner recover():

        defer func() {
            defer func() { recover() }()            // a panic of the clean-up is swallowed,
            ...                                     // the rest of the clean-up is skipped
            c.stream.StopConsume(c.cid)             // Remove: LoadAndDelete, [remove.loaded], count--;
                                                    // then consumption.Close()
            c.consumer.Close()                      // <- consumer code: may panic or block for ever
            c.recvQueue.Reset()
        }()

   The stream LTS treats Consumer.Close as a step that cannot fail ([finish]).  This file re-states the
   three places where the goroutine runs its clean-up (after a Consume panic, at the loop test, and
   when the attacher starts a goroutine on an already closed consumption) with the clean-up as its
   real sequence of actions and the fault of Close as case data.  [stop_first = true] is the code as it
   is; [false] is the order Close-then-StopConsume (kept for the refutation).
   A goroutine parked for ever inside Consumer.Close makes no further step; the LTS has no position
   for that, so the fault state carries a flag per consumer next to the LTS state (position CDone).
   Only the variant [fixed].  No proofs here (Proofs/C04FaultsProofs.v). *)
From Coq Require Import ZArith List Bool Arith.
From V Require Import Val StreamLts Cache LtsWire LtsOracle C04Oracle.
Import ListNotations.

Inductive close_mode := CloseReturns | ClosePanics | CloseBlocks.

(* Consumer.Close has been entered (the recording consumer counts the call on entry) *)
Definition called (k : cons) : cons :=
  {| c_reg := c_reg k; c_closed := c_closed k; c_q := c_q k; c_pc := c_pc k; c_out := c_out k;
     c_disc := c_disc k; c_closes := S (c_closes k); c_pushed := c_pushed k; c_prefill := c_prefill k;
     c_regat := c_regat k; c_unregat := c_unregat k; c_keep := c_keep k |}.
(* recvQueue.Reset(), goroutine ends *)
Definition reset_done (k : cons) : cons :=
  {| c_reg := c_reg k; c_closed := c_closed k; c_q := []; c_pc := CDone; c_out := c_out k;
     c_disc := c_disc k; c_closes := c_closes k; c_pushed := c_pushed k; c_prefill := c_prefill k;
     c_regat := c_regat k; c_unregat := c_unregat k; c_keep := c_keep k |}.

(* c.consumer.Close(); c.recvQueue.Reset() under the inner recover: (consumer, parked in Close) *)
Definition call_close (m : close_mode) (k : cons) : cons * bool :=
  match m with
  | CloseReturns => (reset_done (called k), false)
  | ClosePanics => (set_pc (called k) CDone, false)      (* swallowed; Reset skipped; goroutine ends *)
  | CloseBlocks => (set_pc (called k) CDone, true)       (* never returns: no further step *)
  end.

(* the clean-up up to its first schedule point (remove.loaded) or to its end *)
Definition exit_pathF (stop_first : bool) (m : close_mode) (k : cons) (sent : nat) : cons * bool :=
  if stop_first then
    if c_reg k then (set_pc (set_reg k false sent) CExitLoaded, false)   (* StopConsume: LoadAndDelete *)
    else call_close m k                                                  (* Remove found nothing *)
  else
    match m with
    | CloseReturns =>
        let k1 := called k in
        if c_reg k1 then (set_pc (set_reg k1 false sent) CExitLoaded, false) else (reset_done k1, false)
    | ClosePanics => (set_pc (called k) CDone, false)    (* StopConsume is never reached *)
    | CloseBlocks => (set_pc (called k) CDone, true)
    end.

Definition loop_testF (stop_first : bool) (m : close_mode) (k : cons) (sent : nat) : cons * bool :=
  if c_closed k then exit_pathF stop_first m k sent else (set_pc k CPop, false).

(* from remove.loaded on: count--, consumption.Close(), and the rest of the clean-up *)
Definition after_loaded (stop_first : bool) (m : close_mode) (k : cons) : cons * bool :=
  let k1 := close_cons fixed k in
  if stop_first then call_close m k1 else (reset_done k1, false).

Section Faults.
Variable stop_first : bool.
Variable maxq : nat.
Variable cache_t : Type.
Variable cache_empty : cache_t.
Variable cache_add : cache_t -> pkt -> cache_t.
Variable cache_snap : cache_t -> list pkt.
Variable ncons : nat.
Variable panic_at : nat -> nat.
Variable close_of : nat -> close_mode.

Definition fstate : Type := st cache_t * (nat -> bool).

Definition park (b : nat -> bool) (c : nat) (p : bool) : nat -> bool := if p then upd b c true else b.

Definition step_consF (sb : fstate) (c : nat) : option fstate :=
  let (s, b) := sb in
  let k := s_cs _ s c in
  let sent := length (s_sent _ s) in
  match c_pc k with
  | CGot (Some p) =>
      let k1 := {| c_reg := c_reg k; c_closed := c_closed k; c_q := c_q k; c_pc := c_pc k;
                   c_out := c_out k ++ [p]; c_disc := c_disc k; c_closes := c_closes k;
                   c_pushed := c_pushed k; c_prefill := c_prefill k; c_regat := c_regat k;
                   c_unregat := c_unregat k; c_keep := c_keep k |} in
      let '(k2, p2) := if Nat.eqb (S (length (c_out k))) (panic_at c)
                       then exit_pathF stop_first (close_of c) k1 sent
                       else loop_testF stop_first (close_of c) k1 sent in
      Some (set_cs _ s (upd (s_cs _ s) c k2), park b c p2)
  | CGot None =>
      let '(k2, p2) := loop_testF stop_first (close_of c) k sent in
      Some (set_cs _ s (upd (s_cs _ s) c k2), park b c p2)
  | CExitLoaded =>
      let '(k2, p2) := after_loaded stop_first (close_of c) k in
      Some (set_stp _ s c (s_stp _ s c) (s_count _ s - 1)%Z (upd (s_cs _ s) c k2), park b c p2)
  | _ => match step_cons fixed cache_t panic_at s c with Some s' => Some (s', b) | None => None end
  end.

Definition step_attF (sb : fstate) (c : nat) : option fstate :=
  let (s, b) := sb in
  let k := s_cs _ s c in
  match s_att _ s c with
  | A2 =>
      let '(k1, cnt) :=
        if negb (s_ok _ s) && c_reg k
        then (close_cons fixed (set_reg k false (length (s_sent _ s))), (s_count _ s - 1)%Z)
        else (k, s_count _ s) in
      let '(k2, p2) := loop_testF stop_first (close_of c) k1 (length (s_sent _ s)) in
      Some (set_att _ s c ADone cnt (upd (s_cs _ s) c k2), park b c p2)
  | _ => match step_att fixed cache_t cache_add cache_snap s c with Some s' => Some (s', b) | None => None end
  end.

Definition fstep (sb : fstate) (t : tid) : option fstate :=
  match t with
  | TCons c => if (c <? ncons)%nat then step_consF sb c else None
  | TAtt c => if (c <? ncons)%nat then step_attF sb c else None
  | _ => match step fixed maxq cache_t cache_empty cache_add cache_snap ncons panic_at (fst sb) t with
         | Some s' => Some (s', snd sb) | None => None end
  end.

Fixpoint frun (sched : list tid) (sb : fstate) : fstate :=
  match sched with
  | [] => sb
  | t :: r => frun r (match fstep sb t with Some sb' => sb' | None => sb end)
  end.

Definition finit (pkts : list pkt) (stoppers : nat -> bool) : fstate :=
  (init cache_t cache_empty pkts stoppers, fun _ => false).
End Faults.

(* ---- the wire: a fault case is an LTS case whose field 14 gives Close's behaviour per consumer
        (0 returns, 1 panics, 2 never returns) ---- *)
Definition dec_mode (v : val) : close_mode :=
  match as_int v with 1%Z => ClosePanics | 2%Z => CloseBlocks | _ => CloseReturns end.
Definition case_modes (v : val) : nat -> close_mode :=
  fun i => nth i (map dec_mode (as_list (nthv 14 v))) CloseReturns.

Definition lfrun (stop_first : bool) (c : lcase) (cm : nat -> close_mode) : st rcache * (nat -> bool) :=
  frun stop_first (l_maxq c) rcache (rc_empty (l_gop c)) rc_add rc_snap (l_n c)
       (fun i => nth i (l_panic c) O) cm (l_sched c)
       (finit rcache (rc_empty (l_gop c)) (l_pkts c) (fun i => nth i (l_stop c) false)).

(* observation: as [enc_cons], with a tenth field "parked inside Consumer.Close" *)
Definition enc_consF (sb : st rcache * (nat -> bool)) (c : nat) : val :=
  match enc_cons (fst sb) c with
  | VL l => VL (l ++ [vbool (snd sb c)])
  | v => v
  end.
Definition enc_stateF (n : nat) (sb : st rcache * (nat -> bool)) : val :=
  let s := fst sb in
  VL [ vlist (enc_consF sb) (seq 0 n); VI (s_count _ s); vbool (s_ok _ s);
       VI (ppc_code (s_pp _ s)); vnat (length (s_todo _ s)); VI (kpc_code (s_kp _ s)) ].

Definition faults_run (v : val) : val :=
  let c := dec_lcase v in enc_stateF (l_n c) (lfrun true c (case_modes v)).

(* oracle: [ok_C04x] (a consumer whose Consume panicked is out of the map, whatever its Close does ...),
   Consumer.Close called exactly once by a finished goroutine and never before, and - when no removal is
   in flight - the counter equals the number of registered consumers *)
Local Open Scope Z_scope.
Definition closes_ok (o : obs) : bool :=
  forallb (fun k => o_closes k =? (if o_pc k =? 5 then 1 else 0)) (o_cons o).
Definition count_ok (o : obs) : bool :=
  if forallb (fun k => negb (o_stp k =? 1) && negb (o_pc k =? 4)) (o_cons o)
  then o_count o =? sumz (map (fun k => if o_reg k then 1 else 0) (o_cons o))
  else true.
Definition ok_faults (c : lcase) (o : obs) : bool := ok_C04x c o && closes_ok o && count_ok o.
