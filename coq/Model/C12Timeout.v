(* C12 — the read deadline of a session (Session.process): before every read the loop arms
   now + timeout when timeout > 0 and CLEARS the deadline when timeout = 0; timeout starts as
   config.NetTimeout() and is set to 0 by a successful PLAY (as*Consumer), i.e. exactly in the playing
   state.  Logical clock, events request / tick.  NO proofs here. *)
From Coq Require Import ZArith List Bool.
From V Require Import Val Bytes StrGo C12RtspSession.
Import ListNotations.
Open Scope Z_scope.

Record tsess := { ts_s : sess; ts_now : Z; ts_deadline : option Z }.
Inductive tev := TReq (q : request) | TTick (d : Z).

Definition is_playing (s : sess) : bool := status_eqb (s_status s) SPlaying.

(* [clears]: the code as it is (true) or the variant that only ever arms the deadline (false) *)
Definition arm (clears : bool) (T : Z) (now : Z) (old : option Z) (s : sess) : option Z :=
  if is_playing s then (if clears then None else old) else Some (now + T).

Definition tinit (T : Z) (ws : bool) (wp : bytes) : tsess :=
  {| ts_s := init_sess ws wp; ts_now := 0; ts_deadline := Some T |}.

(* what the client sees: responses to a request, or whether the connection is gone after a wait *)
Inductive tobs := ObsResp (rs : list response) | ObsTick (gone : bool).

Definition tstep (clears : bool) (T : Z) (e : env) (t : tsess) (ev : tev) : tsess * tobs :=
  match ev with
  | TReq q =>
      let '(s', rs, _) := step e (ts_s t) q in
      ({| ts_s := s'; ts_now := ts_now t;
          ts_deadline := if s_closed s' then None else arm clears T (ts_now t) (ts_deadline t) s' |}, ObsResp rs)
  | TTick d =>
      let now' := ts_now t + d in
      match ts_deadline t with
      | Some dl =>
          if (dl <=? now') && negb (s_closed (ts_s t))
          then ({| ts_s := fst (disconnect (ts_s t)); ts_now := now'; ts_deadline := None |}, ObsTick true)
          else ({| ts_s := ts_s t; ts_now := now'; ts_deadline := ts_deadline t |}, ObsTick (s_closed (ts_s t)))
      | None => ({| ts_s := ts_s t; ts_now := now'; ts_deadline := None |}, ObsTick (s_closed (ts_s t)))
      end
  end.

Fixpoint trun (clears : bool) (T : Z) (e : env) (t : tsess) (evs : list tev) : tsess * list tobs :=
  match evs with
  | [] => (t, [])
  | ev :: evs' => let '(t', o) := tstep clears T e t ev in
                  let '(t'', os) := trun clears T e t' evs' in (t'', o :: os)
  end.

(* observed: per request (class cseq) list; per wait 0 = still connected after the wait and the patience,
   1 = the server closed the connection *)
Inductive tseen := SeenResp (rs : list (Z * bytes)) | SeenTick (gone : Z).

Definition resp_eqb (a b : Z * bytes) : bool := (fst a =? fst b) && bytes_eqb (snd a) (snd b).

(* one-sided in time: a session the model keeps must be there however slow the machine is; a session the
   model drops must be gone — if it is not gone within the harness's patience the rest is left
   unevaluated (returns the number of evaluated must-be-dropped waits in the second component) *)
Fixpoint ok_timeout (exp : list tobs) (obs : list tseen) : bool :=
  match exp, obs with
  | [], [] => true
  | ObsResp rs :: exp', SeenResp os :: obs' =>
      list_eqb resp_eqb (map (fun r => (code_class (rs_code r), rs_cseq r)) rs) os && ok_timeout exp' obs'
  | ObsTick false :: exp', SeenTick g :: obs' => (g =? 0) && ok_timeout exp' obs'
  | ObsTick true :: exp', SeenTick g :: obs' => if g =? 1 then ok_timeout exp' obs' else true
  | _, _ => false
  end.
