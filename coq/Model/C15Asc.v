(* C15 — MPEG-4 AudioSpecificConfig (ISO/IEC 14496-3, 1.6.2.1).
   [asc_bits]   : the encoder, transcribed from the syntax table for the audio
                  object types whose specific configuration is modelled:
                  AAC main/LC/SSR/LTP (GASpecificConfig, with a program_config_element kept
                  as opaque bits when channelConfiguration = 0), Layer-1/2/3
                  (MPEG_1_2_SpecificConfig), ALS (AOT 36: fillBits and ALSSpecificConfig with
                  als_id, samp_freq, samples, channels field by field, the rest opaque) and
                  every other object type 1..95 with its specific configuration as opaque
                  bits (the parser reads none of it); alone, with hierarchical SBR / PS
                  signalling (AOT 5 / 29) or with the backward-compatible sync extension
                  0x2b7 (+ 0x548 for PS).
   [spec_rate], [spec_channels] : the standard's output sampling frequency and
                  channel count (Table 1.19).
   [go_asc]     : av/codec/aac/asc.go AudioSpecificConfig.Decode + the selection in
                  aac.MetadataIsReady, as repaired (hierarchical PS condition).
   No proofs here. *)
From Coq Require Import ZArith List Bool.
From V Require Import C15BitFmt.
Import ListNotations.
Open Scope Z_scope.

(* record fields *)
Definition ka_aot := K 1 0.        (* audio object type of the core coder *)
Definition ka_hier := K 2 0.       (* 0 none, 1 outer AOT 5 (SBR), 2 outer AOT 29 (PS) *)
Definition ka_sfi := K 3 0.
Definition ka_sf := K 4 0.         (* samplingFrequency when index = 15 *)
Definition ka_chan := K 5 0.
Definition ka_flen := K 6 0.       (* frameLengthFlag *)
Definition ka_ext_sfi := K 7 0.
Definition ka_ext_sf := K 8 0.
Definition ka_sync := K 9 0.       (* backward-compatible extension present *)
Definition ka_sbr_flag := K 10 0.  (* sbrPresentFlag in the sync extension *)
Definition ka_ps_sync := K 11 0.   (* 0x548 extension present *)
Definition ka_ps_flag := K 12 0.

Definition ka_plen := K 13 0.       (* number of opaque specific-config bits *)
Definition ka_pbit (i : Z) := K 14 i.
Definition ka_als_freq := K 15 0.   (* ALSSpecificConfig.samp_freq *)
Definition ka_als_samples := K 16 0.
Definition ka_als_chan := K 17 0.   (* ALSSpecificConfig.channels = number of channels - 1 *)

Definition bit_of (v : Z) : bool := negb (v =? 0).

(* GetAudioObjectType *)
Definition aot_bits (v : Z) : bits :=
  if v <? 31 then ubits 5 v else ubits 5 31 ++ ubits 6 (v - 32).
Definition rate_bits (i f : Z) : bits :=
  ubits 4 i ++ (if i =? 15 then ubits 24 f else []).

Definition is_ga (aot : Z) : bool := (1 <=? aot) && (aot <=? 4).
Definition is_layer (aot : Z) : bool := (32 <=? aot) && (aot <=? 34).
Definition sfi_ok (i : Z) : bool := ((0 <=? i) && (i <=? 12)) || (i =? 15).
Definition flag_ok (v : Z) : bool := (v =? 0) || (v =? 1).

Definition is_als (aot : Z) : bool := aot =? 36.
Definition ALS_ID : Z := 1095521024.     (* 'A' 'L' 'S' 0 *)

(* specific-config bits the parser does not read, taken from the record as they are *)
Definition opaque (e : env) : bits :=
  map (fun i => bit_of (get e (ka_pbit (Z.of_nat i)))) (seq 0 (Z.to_nat (get e ka_plen))).

(* the part of the specific configuration the parser reads: AOT 36 only —
   fillBits(5), then ALSSpecificConfig: als_id, samp_freq, samples, channels *)
Definition spec_read (e : env) : bits :=
  if is_als (get e ka_aot)
  then ubits 5 0 ++ ubits 32 ALS_ID ++ ubits 32 (get e ka_als_freq) ++
       ubits 32 (get e ka_als_samples) ++ ubits 16 (get e ka_als_chan)
  else [].
(* the part it does not read.  GASpecificConfig: frameLengthFlag, dependsOnCoreCoder = 0,
   extensionFlag = 0 [, program_config_element when channelConfiguration = 0];
   MPEG_1_2_SpecificConfig: extension = 0; ALS: file_type .. trailer_size, orig_header ..;
   any other object type: its whole specific configuration *)
Definition spec_rest (e : env) : bits :=
  let aot := get e ka_aot in
  if is_ga aot then [bit_of (get e ka_flen); false; false] ++ (if get e ka_chan =? 0 then opaque e else [])
  else if is_layer aot then [false]
  else opaque e.

Definition asc_bits (e : env) : bits :=
  let aot := get e ka_aot in
  let hier := get e ka_hier in
  aot_bits (if hier =? 0 then aot else if hier =? 1 then 5 else 29) ++
  rate_bits (get e ka_sfi) (get e ka_sf) ++
  ubits 4 (get e ka_chan) ++
  (if hier =? 0 then []
   else rate_bits (get e ka_ext_sfi) (get e ka_ext_sf) ++ aot_bits aot) ++
  spec_read e ++ spec_rest e ++
  (if (hier =? 0) && (get e ka_sync =? 1)
   then ubits 11 695 (* 0x2b7 *) ++ aot_bits 5 ++ [bit_of (get e ka_sbr_flag)] ++
        (if get e ka_sbr_flag =? 1
         then rate_bits (get e ka_ext_sfi) (get e ka_ext_sf) ++
              (if get e ka_ps_sync =? 1
               then ubits 11 1352 (* 0x548 *) ++ [bit_of (get e ka_ps_flag)] else [])
         else [])
   else []).

Definition asc_bytes (e : env) : list Z := bits_to_bytes (asc_bits e).

(* Table 1.18 *)
Definition sample_rate_table (i : Z) : Z :=
  nth (Z.to_nat i) [96000; 88200; 64000; 48000; 44100; 32000; 24000; 22050;
                    16000; 12000; 11025; 8000; 7350; 0; 0; 0] 0.
Definition rate_of (i f : Z) : Z := if i =? 15 then f else sample_rate_table i.
(* Table 1.19 *)
Definition channels_of (c : Z) : Z := nth (Z.to_nat c) [0; 1; 2; 3; 4; 5; 6; 8] 0.

(* with explicit SBR signalling the output rate is the extension sampling frequency *)
Definition spec_sbr_explicit (e : env) : bool :=
  negb (get e ka_hier =? 0) || ((get e ka_sync =? 1) && (get e ka_sbr_flag =? 1)).
(* ALS carries its own sampling frequency and channel count (channels + 1); otherwise Table 1.18
   or the 24-bit explicit frequency, and Table 1.19 of channelConfiguration (0 = defined by the
   program_config_element, which the parameter parser is not asked to read: it reports 0) *)
Definition spec_rate (e : env) : Z :=
  if is_als (get e ka_aot) then get e ka_als_freq
  else if spec_sbr_explicit e then rate_of (get e ka_ext_sfi) (get e ka_ext_sf)
  else rate_of (get e ka_sfi) (get e ka_sf).
Definition spec_channels (e : env) : Z :=
  if is_als (get e ka_aot) then get e ka_als_chan + 1 else channels_of (get e ka_chan).

(* ------------------------------------------------------------ the Go decoder *)
Definition go_get_aot (bs : bits) : option (Z * bits) :=
  match go_read 5 8 bs with
  | None => None
  | Some (v, r) =>
    if v =? 31 then
      match go_read 6 8 r with Some (w, r') => Some ((w + 32) mod 256, r') | None => None end
    else Some (v, r)
  end.
(* (index, rate) *)
Definition go_get_rate (bs : bits) : option (Z * Z * bits) :=
  match go_read 4 8 bs with
  | None => None
  | Some (i, r) =>
    if i =? 15 then
      match go_read 24 64 r with Some (f, r') => Some (i, f, r') | None => None end
    else Some (i, sample_rate_table i, r)
  end.

Definition ALS_TAG : Z := 4279379.         (* 0 'A' 'L' 'S' *)
Definition ALS_TAG0 : Z := 1095521024.     (* 'A' 'L' 'S' 0 *)

(* the part after the sync word: ext object type, sbr flag, ext rate; then the PS word.
   Returns the extension sample rate (0 = none). *)
Definition go_sync_ext (sr esr0 : Z) (bs : bits) : option Z :=
  match go_get_aot bs with
  | None => None
  | Some (eot, r1) =>
    if eot =? 5 then
      match go_read 1 8 r1 with
      | None => None
      | Some (sbr, r2) =>
        if sbr =? 1 then
          match go_get_rate r2 with
          | None => None
          | Some (_, esr, r3) =>
            (* if BitsLeft() > 11 && Read(11) == 0x548 { ReadBit } *)
            if 11 <? bits_left r3 then
              match go_read 11 32 r3 with
              | None => None
              | Some (w, r4) =>
                if w =? 1352 then match go_read 1 8 r4 with Some _ => Some esr | None => None end
                else Some esr
              end
            else Some esr
          end
        else
          if 11 <? bits_left r2 then
            match go_read 11 32 r2 with
            | None => None
            | Some (w, r4) =>
              if w =? 1352 then match go_read 1 8 r4 with Some _ => Some esr0 | None => None end
              else Some esr0
            end
          else Some esr0
      end
    else
      if 11 <? bits_left r1 then
        match go_read 11 32 r1 with
        | None => None
        | Some (w, r4) =>
          if w =? 1352 then match go_read 1 8 r4 with Some _ => Some esr0 | None => None end
          else Some esr0
        end
      else Some esr0
  end.

(* for r.BitsLeft() > 15 { if Peek(11) == 0x2b7 {...; break} else Skip(1) } *)
Fixpoint go_scan (sr esr0 : Z) (bs : bits) {struct bs} : option Z :=
  if 15 <? bits_left bs then
    match go_peek 11 bs with
    | None => None
    | Some w =>
      if w =? 695 then
        match go_skip 11 bs with Some r => go_sync_ext sr esr0 r | None => None end
      else match bs with [] => Some esr0 | _ :: r => go_scan sr esr0 r end
    end
  else Some esr0.

(* AOT 29 takes the hierarchical branch?  after the repair: !(Peek(3)&3 != 0 && Peek(9)&0x3f == 0),
   the second Peek only evaluated when the first operand does not decide; None = Peek out of range *)
Definition ps_take_fixed (bs : bits) : option bool :=
  match go_peek 3 bs with
  | None => None
  | Some p3 =>
    if Z.land p3 3 =? 0 then Some true
    else match go_peek 9 bs with
         | None => None
         | Some p9 => Some (negb (Z.land p9 63 =? 0))
         end
  end.
(* before: 0 == Peek(3)&3 && 0 == Peek(9)&0x3f — false for every valid hierarchical PS configuration *)
Definition ps_take_d36 (bs : bits) : option bool :=
  match go_peek 3 bs with
  | None => None
  | Some p3 =>
    if Z.land p3 3 =? 0 then
      match go_peek 9 bs with
      | None => None
      | Some p9 => Some (Z.land p9 63 =? 0)
      end
    else Some false
  end.

(* AOT_ALS: Skip(5); optional 24-bit skip; parseConfigALS.  Returns (rate, channels, rest) *)
Definition go_als (bs : bits) : option (Z * Z * bits) :=
  match go_skip 5 bs with
  | None => None
  | Some b1 =>
    match go_peek 24 b1 with
    | None => None
    | Some t =>
      let b2 := if t =? ALS_TAG then Some b1 else go_skip 24 b1 in
      match b2 with
      | None => None
      | Some b2 =>
        if bits_left b2 <? 112 then None else
        match go_read 32 32 b2 with
        | None => None
        | Some (tag, b3) =>
          if negb (tag =? ALS_TAG0) then None else
          match go_read 32 64 b3 with
          | None => None
          | Some (rate, b4) =>
            if rate <=? 0 then None else
            match go_skip 32 b4 with
            | None => None
            | Some b5 =>
              match go_read 16 64 b5 with
              | None => None
              | Some (ch, b6) => Some (rate, (ch + 1) mod 256, b6)
              end
            end
          end
        end
      end
    end
  end.

(* (sample rate, channels) as aac.MetadataIsReady stores them; None = error *)
Definition go_asc_with (ps_take : bits -> option bool) (data : list Z) : option (Z * Z) :=
  let bs0 := bytes_to_bits data in
  match go_get_aot bs0 with
  | None => None
  | Some (ot, b1) =>
  match go_get_rate b1 with
  | None => None
  | Some (_, sr, b2) =>
  match go_read 4 8 b2 with
  | None => None
  | Some (cc, b3) =>
    let channels := if cc <? 8 then channels_of cc else 0 in
    let hier := if ot =? 5 then Some true else if ot =? 29 then ps_take b3 else Some false in
    (* state after the extension branch: object type, ext rate, ext is SBR, rest *)
    let st :=
      match hier with
      | None => None
      | Some true =>
        match go_get_rate b3 with
        | None => None
        | Some (_, esr, b4) =>
          match go_get_aot b4 with
          | None => None
          | Some (ot2, b5) =>
            if ot2 =? 22 then
              match go_read 4 8 b5 with Some (_, r) => Some (ot2, esr, true, r) | None => None end
            else Some (ot2, esr, true, b5)
          end
        end
      | Some false => Some (ot, 0, false, b3)
      end in
    match st with
    | None => None
    | Some (ot2, esr, ext_sbr, b6) =>
      let als := if ot2 =? 36 then
                   match go_als b6 with Some (r, c, b7) => Some (r, c, b7) | None => None end
                 else Some (sr, channels, b6) in
      match als with
      | None => None
      | Some (sr', ch', b7) =>
        if ext_sbr then Some ((if 0 <? esr then esr else sr'), ch')
        else match go_scan sr' esr b7 with
             | None => None
             | Some esr' => Some ((if 0 <? esr' then esr' else sr'), ch')
             end
      end
    end
  end end end.

Definition go_asc := go_asc_with ps_take_fixed.

(* ------------------------------------------------------------ well-formed records *)
Definition SYNC : bits := [false; true; false; true; false; true; true; false; true; true; true].

(* the decoder looks for the sync word 0x2b7 at every bit offset of what follows the part it
   has read (FFmpeg's heuristic), the standard places it right after the specific
   configuration: the two agree when no earlier window of the unread bits spells 0x2b7 *)
Fixpoint clean (p : bits) : bool :=
  match p with
  | [] => true
  | _ :: q =>
    match go_peek 11 (p ++ SYNC) with Some w => negb (w =? 695) | None => false end && clean q
  end.
(* without a sync extension: no window of the unread bits (padding included) spells it *)
Fixpoint scan_hits (bs : bits) : bool :=
  if 15 <? bits_left bs then
    match go_peek 11 bs with
    | None => true
    | Some w => if w =? 695 then true else match bs with [] => false | _ :: r => scan_hits r end
    end
  else false.

Definition asc_pad (e : env) : bits :=
  repeat false (Z.to_nat ((- Z.of_nat (length (asc_bits e))) mod 8)).
Definition payload_ok (e : env) : bool :=
  if get e ka_hier =? 0 then
    if get e ka_sync =? 1 then clean (spec_rest e) else negb (scan_hits (spec_rest e ++ asc_pad e))
  else true.

(* object types: 1..95 except 31 (the escape code), 5 and 29 (the hierarchical signalling itself) *)
Definition core_ok (aot : Z) : bool :=
  (((1 <=? aot) && (aot <=? 30)) || ((32 <=? aot) && (aot <=? 95))) &&
  negb (aot =? 5) && negb (aot =? 29).

(* [maxch]: largest ALS channels field; the decoder keeps the count in a uint8 *)
Definition asc_wf_gen (maxch : Z) (e : env) : bool :=
  (if get e ka_hier =? 0 then core_ok (get e ka_aot) else is_ga (get e ka_aot)) &&
  (0 <=? get e ka_hier) && (get e ka_hier <=? 2) &&
  sfi_ok (get e ka_sfi) && (0 <=? get e ka_sf) && (get e ka_sf <? 2 ^ 24) &&
  (0 <=? get e ka_chan) && (get e ka_chan <=? 7) &&
  flag_ok (get e ka_flen) &&
  sfi_ok (get e ka_ext_sfi) && (0 <? get e ka_ext_sf) && (get e ka_ext_sf <? 2 ^ 24) &&
  flag_ok (get e ka_sync) && flag_ok (get e ka_sbr_flag) && flag_ok (get e ka_ps_sync) &&
  flag_ok (get e ka_ps_flag) &&
  (0 <=? get e ka_plen) &&
  (if is_als (get e ka_aot)
   then (get e ka_sync =? 0) && (128 <=? get e ka_plen) &&       (* file_type .. RLSLMS/aux flags, header_size, trailer_size *)
        (0 <? get e ka_als_freq) && (get e ka_als_freq <? 2 ^ 32) &&
        (0 <=? get e ka_als_samples) && (get e ka_als_samples <? 2 ^ 32) &&
        (0 <=? get e ka_als_chan) && (get e ka_als_chan <=? maxch)
   else true) &&
  payload_ok e.
Definition asc_wf := asc_wf_gen 254.

Definition aobs := option (Z * Z).
Definition aobs_eqb (x y : aobs) : bool :=
  match x, y with
  | None, None => true
  | Some (r, c), Some (r', c') => (r =? r') && (c =? c')
  | _, _ => false
  end.
Fixpoint zl_eqb (x y : list Z) : bool :=
  match x, y with
  | [], [] => true
  | a :: x', b :: y' => (a =? b) && zl_eqb x' y'
  | _, _ => false
  end.
Definition ok_asc_gen (maxch : Z) (e : env) (data : list Z) (o : aobs) : bool :=
  if asc_wf_gen maxch e && zl_eqb data (asc_bytes e)
  then aobs_eqb o (Some (spec_rate e, spec_channels e)) else true.
Definition ok_asc := ok_asc_gen 254.
(* every ALS channel count the format can carry (known finding: the decoder wraps at 256) *)
Definition ok_asc_wide := ok_asc_gen 65535.
