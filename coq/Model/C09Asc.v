(* C09 — the ADTS header as a function of the AudioSpecificConfig.
   [asc_decode] mirrors aac.AudioSpecificConfig.Decode (bit reader, hierarchical SBR/PS
   signalling, scan for the backward-compatible sync extension 0x2b7 with sbrPresentFlag and
   the 0x548 PS extension) as far as the fields read by ToAdtsHeader are concerned; the
   escape object type (31) and ALS (36) are outside the model.  [asc_effective] is what
   ToAdtsHeader hands to NewADTSHeader.
   Specification side: a configuration is described by [asc_env] (ISO/IEC 14496-3 1.6.2.1
   syntax elements); [asc_encode] writes it, [asc_of_env] says what the ADTS fixed header
   must announce for it.  No proofs here. *)
From Coq Require Import ZArith List Bool.
From V Require Import Bytes C09Adts.
Import ListNotations.
Open Scope Z_scope.

(* ---- bits ---- *)
Definition bits := list bool.
Fixpoint z_bits (n : nat) (v : Z) : bits :=   (* the n low bits of v, most significant first *)
  match n with
  | O => []
  | S k => Z.testbit v (Z.of_nat k) :: z_bits k v
  end.
Definition bytes_bits (s : bytes) : bits := flat_map (z_bits 8) s.
Fixpoint bits_z_acc (acc : Z) (b : bits) : Z :=
  match b with [] => acc | x :: r => bits_z_acc (2 * acc + (if x then 1 else 0)) r end.
Definition bits_z (b : bits) : Z := bits_z_acc 0 b.
Fixpoint bits_bytes_fuel (fuel : nat) (b : bits) : bytes :=
  match b with
  | [] => []
  | _ => match fuel with
         | O => []
         | S k => bits_z (firstn 8 (b ++ repeat false 7)) :: bits_bytes_fuel k (skipn 8 b)
         end
  end.
Definition bits_bytes (b : bits) : bytes := bits_bytes_fuel (length b) b.   (* zero padded *)

(* bits.Reader: reading past the end panics (recovered by Decode into an error) = None *)
Definition rd (n : nat) (b : bits) : option (Z * bits) :=
  if Nat.leb n (length b) then Some (bits_z (firstn n b), skipn n b) else None.
Definition pk (n : nat) (b : bits) : option Z :=
  match rd n b with Some (v, _) => Some v | None => None end.

(* ---- Decode ---- *)
Definition sample_rate_tab (i : Z) : Z :=
  nth (Z.to_nat i) [96000; 88200; 64000; 48000; 44100; 32000; 24000; 22050; 16000; 12000; 11025; 8000; 7350] 0.

Record ascd := {
  d_obj : Z; d_sfi : Z; d_rate : Z; d_chan : Z;
  d_ext_obj : Z; d_ext_sfi : Z; d_ext_rate : Z }.

Definition AOT_SBR := 5.
Definition AOT_PS := 29.

(* getObjectType; the escape value (31, six more bits) is outside the model: it is reported as
   the marker OUTSIDE and whatever is decoded after it is disregarded *)
Definition OUTSIDE : Z := 1000.
Definition get_aot (b : bits) : option (Z * bits) :=
  match rd 5 b with
  | Some (31, b') => Some (OUTSIDE, b')
  | r => r
  end.

(* getSampleRate: index, rate *)
Definition get_rate (b : bits) : option (Z * Z * bits) :=
  match rd 4 b with
  | Some (15, b') => match rd 24 b' with Some (f, b'') => Some (15, f, b'') | None => None end
  | Some (i, b') => Some (i, sample_rate_tab i, b')
  | None => None
  end.

(* `for r.BitsLeft() > 15 { if r.Peek(11) == 0x2b7 {...; break} else { r.Skip(1) } }`;
   returns ExtObjectType, ExtSamplingIndex, ExtSampleRate as left by the loop *)
Fixpoint sync_scan (fuel : nat) (b : bits) (eo esfi erate : Z) : option (Z * Z * Z) :=
  match fuel with
  | O => Some (eo, esfi, erate)
  | S k =>
      if Nat.leb 16 (length b) then
        match pk 11 b with
        | Some 0x2b7 =>
            match get_aot (skipn 11 b) with
            | Some (eo', b1) =>
                if eo' =? OUTSIDE then Some (OUTSIDE, esfi, erate) else
                if eo' =? AOT_SBR then
                  match rd 1 b1 with
                  | Some (1, b2) =>
                      match get_rate b2 with
                      | Some (i, f, b3) =>
                          (* the 0x548 / PS flag reads that follow do not touch the fields kept here,
                             but they can run past the end *)
                          if Nat.leb 12 (length b3) then
                            match rd 11 b3 with
                            | Some (0x548, b4) => match rd 1 b4 with Some _ => Some (eo', i, f) | None => None end
                            | _ => Some (eo', i, f)
                            end
                          else Some (eo', i, f)
                      | None => None
                      end
                  | Some (_, b2) =>
                      if Nat.leb 12 (length b2) then
                        match rd 11 b2 with
                        | Some (0x548, b4) => match rd 1 b4 with Some _ => Some (eo', esfi, erate) | None => None end
                        | _ => Some (eo', esfi, erate)
                        end
                      else Some (eo', esfi, erate)
                  | None => None
                  end
                else
                  if Nat.leb 12 (length b1) then
                    match rd 11 b1 with
                    | Some (0x548, b4) => match rd 1 b4 with Some _ => Some (eo', esfi, erate) | None => None end
                    | _ => Some (eo', esfi, erate)
                    end
                  else Some (eo', esfi, erate)
            | None => None
            end
        | Some _ => sync_scan k (skipn 1 b) eo esfi erate
        | None => None
        end
      else Some (eo, esfi, erate)
  end.

Definition asc_decode (cfg : bytes) : option ascd :=
  let b := bytes_bits cfg in
  match get_aot b with
  | None => None
  | Some (obj, b) =>
  match get_rate b with
  | None => None
  | Some (sfi, rate, b) =>
  match rd 4 b with
  | None => None
  | Some (chan, b) =>
      let hier :=
        if obj =? AOT_SBR then Some true
        else if obj =? AOT_PS then
          match pk 3 b, pk 9 b with
          | Some p3, Some p9 => Some (negb (negb (Z.land p3 3 =? 0) && (Z.land p9 63 =? 0)))
          | _, _ => None
          end
        else Some false in
      match hier with
      | None => None
      | Some true =>
          match get_rate b with
          | None => None
          | Some (esfi, erate, b) =>
              match get_aot b with
              | None => None
              | Some (obj', b) =>
                  (* ER_BSAC channel field, ALS: outside *)
                  Some {| d_obj := if (obj' =? 22) || (obj' =? 36) then OUTSIDE else obj'; d_sfi := sfi; d_rate := rate; d_chan := chan;
                          d_ext_obj := AOT_SBR; d_ext_sfi := esfi; d_ext_rate := erate |}
              end
          end
      | Some false =>
          if (obj =? 36) || (obj =? OUTSIDE) then
            Some {| d_obj := OUTSIDE; d_sfi := sfi; d_rate := rate; d_chan := chan;
                    d_ext_obj := 0; d_ext_sfi := 0; d_ext_rate := 0 |} else
          match sync_scan (length b) b 0 0 0 with
          | Some (eo, esfi, erate) =>
              Some {| d_obj := obj; d_sfi := sfi; d_rate := rate; d_chan := chan;
                      d_ext_obj := eo; d_ext_sfi := esfi; d_ext_rate := erate |}
          | None => None
          end
      end
  end end end.

(* ToAdtsHeader: NewADTSHeader(ObjectType-1, ExtSampleRate > 0 ? ExtSamplingIndex : SamplingIndex, ChannelConfig, n) *)
Definition asc_effective (d : ascd) : asc :=
  {| asc_obj := d_obj d;
     asc_sidx := if d_ext_rate d >? 0 then d_ext_sfi d else d_sfi d;
     asc_chan := d_chan d |}.

(* aacPacketizer.prepareAsc: a configuration that does not decode, or decodes to object type 0,
   leaves audioSps nil *)
Definition asc_outside (d : ascd) : bool := (d_obj d =? OUTSIDE) || (d_ext_obj d =? OUTSIDE).
Definition asc_of_config (cfg : bytes) : option asc :=
  match asc_decode cfg with
  | Some d => if (d_obj d =? 0) || asc_outside d then None else Some (asc_effective d)
  | None => None
  end.

(* ---- specification side ---- *)
(* signalling: 0 plain; 1 hierarchical SBR (outer AOT 5); 2 hierarchical PS (outer AOT 29);
   3 backward-compatible sync extension, sbrPresentFlag 0; 4 the same with sbrPresentFlag 1;
   5 = 4 followed by the 0x548 extension with psPresentFlag 1 *)
Record asc_env := { e_aot : Z; e_sfi : Z; e_chan : Z; e_sig : Z; e_ext_sfi : Z }.

Definition ga_bits : bits := [false; false; false].   (* frameLengthFlag, dependsOnCoreCoder, extensionFlag *)

Definition asc_env_bits (e : asc_env) : bits :=
  let core := z_bits 4 (e_sfi e) ++ z_bits 4 (e_chan e) in
  if e_sig e =? 1 then z_bits 5 5 ++ core ++ z_bits 4 (e_ext_sfi e) ++ z_bits 5 (e_aot e) ++ ga_bits
  else if e_sig e =? 2 then z_bits 5 29 ++ core ++ z_bits 4 (e_ext_sfi e) ++ z_bits 5 (e_aot e) ++ ga_bits
  else
    z_bits 5 (e_aot e) ++ core ++ ga_bits ++
    (if e_sig e =? 3 then z_bits 11 0x2b7 ++ z_bits 5 5 ++ [false]
     else if e_sig e =? 4 then z_bits 11 0x2b7 ++ z_bits 5 5 ++ [true] ++ z_bits 4 (e_ext_sfi e)
     else if e_sig e =? 5 then z_bits 11 0x2b7 ++ z_bits 5 5 ++ [true] ++ z_bits 4 (e_ext_sfi e)
                               ++ z_bits 11 0x548 ++ [true]
     else []).
Definition asc_encode (e : asc_env) : bytes := bits_bytes (asc_env_bits e).

Definition wf_env (e : asc_env) : bool :=
  (1 <=? e_aot e) && (e_aot e <=? 4) && (0 <=? e_sfi e) && (e_sfi e <=? 12) &&
  (0 <=? e_chan e) && (e_chan e <=? 7) && (0 <=? e_sig e) && (e_sig e <=? 5) &&
  (0 <=? e_ext_sfi e) && (e_ext_sfi e <=? 12).

(* what the ADTS fixed header announces: profile = core object type - 1, channel configuration,
   and the sampling frequency index of the core coder — except that, when the configuration
   explicitly signals an extension sampling frequency (hierarchical SBR/PS, or the sync
   extension with sbrPresentFlag = 1), the writer announces that one (the nginx-rtmp
   convention this code follows).  sbrPresentFlag = 0 means "no SBR": the core index. *)
Definition env_adts_sfi (e : asc_env) : Z :=
  if (e_sig e =? 1) || (e_sig e =? 2) || (e_sig e =? 4) || (e_sig e =? 5) then e_ext_sfi e else e_sfi e.
Definition asc_of_env (e : asc_env) : asc :=
  {| asc_obj := e_aot e; asc_sidx := env_adts_sfi e; asc_chan := e_chan e |}.
