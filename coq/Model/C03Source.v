(* C03 — the stream's SOURCE as a transport: an RTSP RECORD session (rtsp.Session with
   tcpPushStream) publishing a stream that players of any transport attach to.  The session is a
   protocol state machine (status Init / Ready / Recording, session mode, the one reference
   [s.stream] through which the published stream is ever unregistered and closed); the publisher may
   repeat OPTIONS / ANNOUNCE / SETUP / RECORD at any time; another publisher may take the path; the
   source ends by TEARDOWN or by a dropped connection (a pulled source: by its camera ending).
   [guard]: RECORD in status Recording is a keep-alive (the code as it is) — without it a second
   RECORD publishes a second stream over the session's own first one and loses the only reference
   to the first.  No proofs here. *)
From Coq Require Import ZArith List Bool Arith.
Import ListNotations.

Inductive sreq := QOptions | QAnnounce | QSetup | QRecord.
Inductive sev :=
| SReq (r : sreq)      (* a request on the publisher's connection *)
| SAttach (c : nat)    (* player c attaches to the stream registered under the path *)
| SDetach (c : nat)    (* player c leaves (TEARDOWN or dropped connection) *)
| SOther               (* another publisher registers the same path *)
| SEnd.                (* the source ends *)

Inductive sstatus := StInit | StReady | StRecording.

Definition updn {A} (f : nat -> A) (k : nat) (v : A) : nat -> A := fun j => if Nat.eqb k j then v else f j.
Definition opt_is (o : option nat) (j : nat) : bool := match o with Some k => Nat.eqb k j | None => false end.

Record sst := {
  s_status : sstatus;
  s_mode_rec : bool;             (* Session.mode == RecordSession *)
  s_cur : option nat;            (* Session.stream: the stream this session will unregister and close *)
  s_over : bool;                 (* the source's connection has ended *)
  s_n : nat;                     (* streams created so far *)
  s_live : nat -> bool;
  s_mine : nat -> bool;          (* published by THE source (ghost) *)
  s_reg : option nat;            (* the registry entry of the path *)
  s_others : nat;                (* other publishers connected *)
  s_where : nat -> option nat;   (* the stream a player is attached to *)
  s_ever : nat -> option nat;    (* ghost: the stream it attached to, once *)
  s_closes : nat -> nat          (* Consumer.Close calls = the player's connection closed by the server / by itself *)
}.

Definition sinit : sst :=
  {| s_status := StInit; s_mode_rec := false; s_cur := None; s_over := false; s_n := 0;
     s_live := fun _ => false; s_mine := fun _ => false; s_reg := None; s_others := 0;
     s_where := fun _ => None; s_ever := fun _ => None; s_closes := fun _ => 0 |}.

Section Source.
Variable guard : bool.
Variable np : nat.        (* players 0 .. np-1 *)

Definition has_consumers (s : sst) (j : nat) : bool := existsb (fun c => opt_is (s_where s c) j) (seq 0 np).

(* Stream.close: every consumer of j has Close called and is gone *)
Definition close_stream (j : nat) (s : sst) : sst :=
  {| s_status := s_status s; s_mode_rec := s_mode_rec s; s_cur := s_cur s; s_over := s_over s; s_n := s_n s;
     s_live := updn (s_live s) j false; s_mine := s_mine s; s_reg := s_reg s; s_others := s_others s;
     s_where := fun c => if opt_is (s_where s c) j then None else s_where s c;
     s_ever := s_ever s;
     s_closes := fun c => if opt_is (s_where s c) j then S (s_closes s c) else s_closes s c |}.

(* media.NewStream + media.Regist: the stream registered before is closed at once if it has no consumers,
   else it is retired and lives on *)
Definition publish (mine : bool) (s : sst) : sst :=
  let k := s_n s in
  let s1 := match s_reg s with
            | Some j => if s_live s j && negb (has_consumers s j) then close_stream j s else s
            | None => s
            end in
  {| s_status := s_status s1; s_mode_rec := s_mode_rec s1; s_cur := if mine then Some k else s_cur s1;
     s_over := s_over s1; s_n := S k; s_live := updn (s_live s1) k true; s_mine := updn (s_mine s1) k mine;
     s_reg := Some k; s_others := if mine then s_others s1 else S (s_others s1);
     s_where := s_where s1; s_ever := s_ever s1; s_closes := s_closes s1 |}.

Definition set_session (s : sst) (st : sstatus) (mode : bool) : sst :=
  {| s_status := st; s_mode_rec := mode; s_cur := s_cur s; s_over := s_over s; s_n := s_n s; s_live := s_live s;
     s_mine := s_mine s; s_reg := s_reg s; s_others := s_others s; s_where := s_where s; s_ever := s_ever s;
     s_closes := s_closes s |}.

Definition request (r : sreq) (s : sst) : sst :=
  if s_over s then s else
  match r with
  | QOptions => s
  | QAnnounce =>                 (* accepted in the initial status only (455 otherwise) *)
      match s_status s with StInit => set_session s StInit true | _ => s end
  | QSetup =>                    (* TCP interleaved, mode=record *)
      match s_status s with
      | StInit | StReady => set_session s StReady (s_mode_rec s)
      | StRecording => s
      end
  | QRecord =>
      match s_status s with
      | StInit => s
      | StReady => if s_mode_rec s then set_session (publish true s) StRecording true else s
      | StRecording =>
          if guard then s          (* keep-alive *)
          else if s_mode_rec s then set_session (publish true s) StRecording true else s
      end
  end.

Definition sstep (s : sst) (e : sev) : sst :=
  match e with
  | SReq r => request r s
  | SAttach c =>
      match s_reg s, s_ever s c with
      | Some j, None =>
          if s_live s j then
            {| s_status := s_status s; s_mode_rec := s_mode_rec s; s_cur := s_cur s; s_over := s_over s; s_n := s_n s;
               s_live := s_live s; s_mine := s_mine s; s_reg := s_reg s; s_others := s_others s;
               s_where := updn (s_where s) c (Some j); s_ever := updn (s_ever s) c (Some j); s_closes := s_closes s |}
          else s
      | _, _ => s
      end
  | SDetach c =>
      match s_where s c with
      | Some _ =>
          {| s_status := s_status s; s_mode_rec := s_mode_rec s; s_cur := s_cur s; s_over := s_over s; s_n := s_n s;
             s_live := s_live s; s_mine := s_mine s; s_reg := s_reg s; s_others := s_others s;
             s_where := updn (s_where s) c None; s_ever := s_ever s; s_closes := updn (s_closes s) c (S (s_closes s c)) |}
      | None => s
      end
  | SOther => publish false s
  | SEnd =>
      if s_over s then s else
      let s1 := match s_cur s with
                | Some k =>       (* tcpPushStream.Close: media.Unregist = CompareAndDelete + Stream.Close *)
                    let s0 := close_stream k s in
                    {| s_status := s_status s0; s_mode_rec := s_mode_rec s0; s_cur := s_cur s0; s_over := s_over s0;
                       s_n := s_n s0; s_live := s_live s0; s_mine := s_mine s0;
                       s_reg := if opt_is (s_reg s0) k then None else s_reg s0; s_others := s_others s0;
                       s_where := s_where s0; s_ever := s_ever s0; s_closes := s_closes s0 |}
                | None => s
                end in
      {| s_status := StInit; s_mode_rec := s_mode_rec s1; s_cur := None; s_over := true; s_n := s_n s1;
         s_live := s_live s1; s_mine := s_mine s1; s_reg := s_reg s1; s_others := s_others s1;
         s_where := s_where s1; s_ever := s_ever s1; s_closes := s_closes s1 |}
  end.

Definition srun (h : list sev) : sst := fold_left sstep h sinit.

(* ---- what is seen from outside ---- *)
Record sobs := {
  so_gens : list Z;        (* ConsumerCount of every stream created under the path, in order of creation *)
  so_rtsp : Z; so_flv : Z; so_wsp : Z;     (* active connections relative to before the case *)
  so_ended : list bool;    (* per player: its connection has ended *)
  so_conv : Z              (* conversion goroutines (RTP demuxer, FLV muxer, TS muxer) of each kind = live streams *)
}.

Definition b2n (b : bool) : Z := if b then 1%Z else 0%Z.
Definition count_where (s : sst) (j : nat) : Z :=
  fold_left (fun a c => (a + b2n (opt_is (s_where s c) j))%Z) (seq 0 np) 0%Z.
Definition is_rtsp (k : Z) : bool := (k =? 0)%Z || (k =? 1)%Z || (k =? 2)%Z.
Definition is_flv (k : Z) : bool := (k =? 4)%Z || (k =? 5)%Z.
Definition is_wsp (k : Z) : bool := (k =? 3)%Z.
Definition attached (s : sst) (c : nat) : bool := match s_where s c with Some _ => true | None => false end.
Definition count_kind (kinds : list Z) (p : Z -> bool) (s : sst) : Z :=
  fold_left (fun a c => (a + b2n (attached s c && p (nth c kinds 0%Z)))%Z) (seq 0 np) 0%Z.

Definition sobserve (kinds : list Z) (s : sst) : sobs :=
  {| so_gens := map (count_where s) (seq 0 (s_n s));
     so_rtsp := (b2n (negb (s_over s)) + Z.of_nat (s_others s) + count_kind kinds is_rtsp s)%Z;
     so_flv := count_kind kinds is_flv s;
     so_wsp := count_kind kinds is_wsp s;
     so_ended := map (fun c => negb (Nat.eqb (s_closes s c) 0)) (seq 0 np);
     so_conv := fold_left (fun a j => (a + b2n (s_live s j))%Z) (seq 0 (s_n s)) 0%Z |}.

Fixpoint strace (kinds : list Z) (s : sst) (h : list sev) : list sobs :=
  match h with
  | [] => []
  | e :: h' => let s' := sstep s e in sobserve kinds s' :: strace kinds s' h'
  end.

End Source.

Fixpoint zlist_eqb (a b : list Z) : bool :=
  match a, b with [], [] => true | x :: a', y :: b' => Z.eqb x y && zlist_eqb a' b' | _, _ => false end.
Fixpoint blist_eqb (a b : list bool) : bool :=
  match a, b with [], [] => true | x :: a', y :: b' => Bool.eqb x y && blist_eqb a' b' | _, _ => false end.
Definition sobs_eqb (a b : sobs) : bool :=
  zlist_eqb (so_gens a) (so_gens b) && Z.eqb (so_rtsp a) (so_rtsp b) && Z.eqb (so_flv a) (so_flv b)
  && Z.eqb (so_wsp a) (so_wsp b) && blist_eqb (so_ended a) (so_ended b) && Z.eqb (so_conv a) (so_conv b).
Fixpoint solist_eqb (a b : list sobs) : bool :=
  match a, b with [], [] => true | x :: a', y :: b' => sobs_eqb x y && solist_eqb a' b' | _, _ => false end.

(* the oracle: after every event exactly what the session as specified (keep-alive RECORD) shows *)
Definition ok_source (np : nat) (kinds : list Z) (h : list sev) (observed : list sobs) : bool :=
  solist_eqb (strace true np kinds sinit h) observed.

(* histories the harness can drive: a player attaches once, while a live stream is registered; the publisher's
   first request is not sent after its connection has ended *)
Fixpoint swf (guard : bool) (np : nat) (s : sst) (h : list sev) : bool :=
  match h with
  | [] => true
  | e :: h' =>
      (match e with
       | SAttach c => (c <? np) && match s_reg s, s_ever s c with
                                   | Some j, None => s_live s j
                                   | _, _ => false
                                   end
       | SDetach c => attached s c
       | SReq _ => negb (s_over s)
       | SEnd => negb (s_over s)
       | SOther => true
       end) && swf guard np (sstep guard np s e) h'
  end.
