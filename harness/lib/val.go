// Package lib: wire values and the case loop shared by every harness command.
package lib

import (
	"bufio"
	"fmt"
	"math/big"
	"os"
	"strconv"
	"strings"
)

// Val is the universal wire value: integer, byte string or list.
type Val struct {
	K   byte // 'i', 'b', 'l'
	I   int64
	Big *big.Int // set when the integer does not fit int64
	B   []byte
	L   []Val
}

func I(n int64) Val { return Val{K: 'i', I: n} }
func U(n uint64) Val {
	if n <= 1<<62 {
		return I(int64(n))
	}
	return Val{K: 'i', Big: new(big.Int).SetUint64(n)}
}
func Bo(b bool) Val {
	if b {
		return I(1)
	}
	return I(0)
}
func B(b []byte) Val       { return Val{K: 'b', B: b} }
func S(s string) Val       { return Val{K: 'b', B: []byte(s)} }
func L(vs ...Val) Val      { return Val{K: 'l', L: vs} }
func Panic(msg string) Val { return L(S("!panic"), S(msg)) }

func (v Val) At(i int) Val {
	if v.K != 'l' || i >= len(v.L) {
		return L()
	}
	return v.L[i]
}
func (v Val) Int() int64    { return v.I }
func (v Val) Bool() bool    { return v.K == 'i' && v.I != 0 }
func (v Val) Bytes() []byte { return v.B }
func (v Val) Str() string   { return string(v.B) }
func (v Val) List() []Val   { return v.L }

func (v Val) write(sb *strings.Builder) {
	switch v.K {
	case 'i':
		if v.Big != nil {
			sb.WriteString(v.Big.String())
		} else {
			sb.WriteString(strconv.FormatInt(v.I, 10))
		}
	case 'b':
		sb.WriteByte('x')
		const hexd = "0123456789abcdef"
		for _, c := range v.B {
			sb.WriteByte(hexd[c>>4])
			sb.WriteByte(hexd[c&15])
		}
	default:
		sb.WriteByte('(')
		for i, x := range v.L {
			if i > 0 {
				sb.WriteByte(' ')
			}
			x.write(sb)
		}
		sb.WriteByte(')')
	}
}

func (v Val) String() string {
	var sb strings.Builder
	v.write(&sb)
	return sb.String()
}

func hexv(c byte) byte {
	switch {
	case c >= '0' && c <= '9':
		return c - '0'
	case c >= 'a' && c <= 'f':
		return c - 'a' + 10
	default:
		return c - 'A' + 10
	}
}

func parseValAt(s string, pos *int) Val {
	for *pos < len(s) && (s[*pos] == ' ' || s[*pos] == '\t') {
		*pos++
	}
	if *pos >= len(s) {
		panic("val: eof")
	}
	switch s[*pos] {
	case '(':
		*pos++
		out := Val{K: 'l', L: []Val{}}
		for {
			for *pos < len(s) && s[*pos] == ' ' {
				*pos++
			}
			if *pos >= len(s) {
				panic("val: unclosed")
			}
			if s[*pos] == ')' {
				*pos++
				return out
			}
			out.L = append(out.L, parseValAt(s, pos))
		}
	case 'x':
		*pos++
		st := *pos
		for *pos < len(s) && s[*pos] != ' ' && s[*pos] != ')' && s[*pos] != '(' {
			*pos++
		}
		n := (*pos - st) / 2
		b := make([]byte, n)
		for i := 0; i < n; i++ {
			b[i] = hexv(s[st+2*i])<<4 | hexv(s[st+2*i+1])
		}
		return Val{K: 'b', B: b}
	default:
		st := *pos
		for *pos < len(s) && s[*pos] != ' ' && s[*pos] != ')' && s[*pos] != '(' {
			*pos++
		}
		tok := s[st:*pos]
		if n, err := strconv.ParseInt(tok, 10, 64); err == nil {
			return I(n)
		}
		bi, ok := new(big.Int).SetString(tok, 10)
		if !ok {
			panic("val: bad int " + tok)
		}
		return Val{K: 'i', Big: bi}
	}
}

func ParseVal(s string) Val { p := 0; return parseValAt(s, &p) }

// safely runs f on one case; a panic in the code under test becomes the !panic marker
func Safely(f func(Val) Val, c Val) (out Val) {
	defer func() {
		if r := recover(); r != nil {
			out = Panic(fmt.Sprint(r))
		}
	}()
	return f(c)
}

// Main runs the case loop: os.Args[1] selects the command; cases on stdin, observations on stdout.
func Main(commands map[string]func(Val) Val) {
	if len(os.Args) < 2 {
		fmt.Fprintln(os.Stderr, "usage: vh <command>  (cases on stdin, observations on stdout)")
		os.Exit(2)
	}
	f, ok := commands[os.Args[1]]
	if !ok {
		fmt.Fprintln(os.Stderr, "vh: unknown command", os.Args[1])
		os.Exit(2)
	}
	journal := os.Getenv("VH_JOURNAL")
	in := bufio.NewReaderSize(os.Stdin, 1<<20)
	out := bufio.NewWriterSize(os.Stdout, 1<<20)
	defer out.Flush()
	n := 0
	for {
		line, err := in.ReadString('\n')
		line = strings.TrimRight(line, "\r\n")
		if line != "" {
			if journal != "" { // the case about to run, so a dead process leaves its input behind
				_ = os.WriteFile(journal, []byte(strconv.Itoa(n)+"\n"+line+"\n"), 0644)
			}
			v := Safely(f, ParseVal(line))
			out.WriteString(v.String())
			out.WriteByte('\n')
			out.Flush()
			n++
		}
		if err != nil {
			break
		}
	}
}
