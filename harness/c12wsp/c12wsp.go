// Package c12wsp drives real WSP sessions (service/wsp: control channel INIT + WRAP,
// data channel JOIN) for property C12.  The production HTTP handler
// (service.VerifNewHTTP) runs on an httptest server; a gorilla websocket client opens
// the control channel on /streams<path>, sends the generated WSP messages — every
// message on an established channel is followed by a sentinel WRAP(OPTIONS), so a
// missing or doubled response is seen without timing — opens data channels, publishes
// RTP packets into the pre-registered streams after every step and reports, per
// request: the responses (WSP status, seq, wrapped RTSP status class, CSeq, Session),
// whether the server closed the control channel, media.Get owner / consumer count of
// the watched paths, and whether anything arrived on a data channel.
package c12wsp

import (
	"bufio"
	"fmt"
	"net/http/httptest"
	"net/url"
	"strconv"
	"strings"
	"sync"
	"time"

	. "vh/lib"

	"github.com/cnotch/ipchub/av/format/rtp"
	"github.com/cnotch/ipchub/config"
	"github.com/cnotch/ipchub/media"
	"github.com/cnotch/ipchub/service"
	"github.com/cnotch/ipchub/service/rtsp"
	"github.com/cnotch/xlog"
	"github.com/gorilla/websocket"
)

// SdpText maps the SDP ids of the cases to texts; set by the C12 harness (ids shared
// with Run/RunC12.v sdp_table).
var SdpText func(int64) string

// Commands returns the harness commands of this package.
func Commands() map[string]func(Val) Val {
	return map[string]func(Val) Val{"C12_wsp": runCase, "C12_wsp_channel": channelOf}
}

// channelOf: (ch0 text track) -> the interleaved channel RTPTransport.ParseTransport leaves for the track
func channelOf(c Val) Val {
	t := rtsp.RTPTransport{Mode: rtsp.PlaySession, Type: rtsp.RTPUnknownTrans}
	for i := range t.Channels {
		t.Channels[i] = int(c.At(0).Int())
		t.ClientPorts[i] = -1
	}
	idx := int(rtsp.ChannelVideo)
	if c.At(2).Int() != 0 {
		idx = int(rtsp.ChannelAudio)
	}
	t.ParseTransport(idx, c.At(1).Str())
	return I(int64(t.Channels[idx]))
}

var (
	once sync.Once
	srv  *httptest.Server
)

func start() {
	once.Do(func() {
		xlog.ReplaceGlobal(xlog.New(xlog.NewNopCore()))
		config.VerifSetAuth(false)
		handler, _ := service.VerifNewHTTP()
		srv = httptest.NewServer(handler)
	})
}

// ---------------------------------------------------------------- websocket client
type sock struct {
	ws     *websocket.Conn
	msgs   chan []byte
	closed chan struct{}
	dead   bool
}

func dial(path, proto string) (*sock, error) {
	d := websocket.Dialer{HandshakeTimeout: 5 * time.Second, Subprotocols: []string{proto}}
	u := "ws" + strings.TrimPrefix(srv.URL, "http") + "/streams" + path
	ws, _, err := d.Dial(u, nil)
	if err != nil {
		return nil, err
	}
	s := &sock{ws: ws, msgs: make(chan []byte, 4096), closed: make(chan struct{})}
	go func() {
		defer close(s.closed)
		for {
			_, msg, err := ws.ReadMessage()
			if err != nil {
				return
			}
			s.msgs <- msg
		}
	}()
	return s, nil
}

const (
	gotMsg = iota
	gotEOF
	gotTimeout
)

// next waits for the next message, the end of the connection or the deadline.
func (s *sock) next(d time.Duration) ([]byte, int) {
	select {
	case m := <-s.msgs:
		return m, gotMsg
	default:
	}
	t := time.NewTimer(d)
	defer t.Stop()
	select {
	case m := <-s.msgs:
		return m, gotMsg
	case <-s.closed:
		select {
		case m := <-s.msgs:
			return m, gotMsg
		default:
		}
		s.dead = true
		return nil, gotEOF
	case <-t.C:
		return nil, gotTimeout
	}
}

func (s *sock) send(text string) {
	s.ws.SetWriteDeadline(time.Now().Add(5 * time.Second))
	s.ws.WriteMessage(websocket.TextMessage, []byte(text))
}

// ---------------------------------------------------------------- responses
type wresp struct {
	code    int
	seq     string
	channel string
	hasRTSP bool
	rcode   int
	cseq    string
	session string
}

func parseWsp(msg []byte) *wresp {
	s := string(msg)
	r := &wresp{code: -1}
	i := strings.Index(s, "\r\n\r\n")
	if i < 0 {
		return r
	}
	head := strings.Split(s[:i], "\r\n")
	body := s[i+4:]
	f := strings.SplitN(head[0], " ", 3)
	if len(f) >= 2 && f[0] == "WSP/1.1" {
		r.code, _ = strconv.Atoi(f[1])
	}
	for _, h := range head[1:] {
		if j := strings.IndexByte(h, ':'); j >= 0 {
			k, v := strings.ToLower(strings.TrimSpace(h[:j])), strings.TrimSpace(h[j+1:])
			switch k {
			case "seq":
				r.seq = v
			case "channel":
				r.channel = v
			}
		}
	}
	if body == "" {
		return r
	}
	r.hasRTSP = true
	br := bufio.NewReader(strings.NewReader(body))
	line, _ := br.ReadString('\n')
	parts := strings.SplitN(strings.TrimSpace(line), " ", 3)
	if len(parts) >= 2 && strings.HasPrefix(parts[0], "RTSP/") {
		r.rcode, _ = strconv.Atoi(parts[1])
	}
	for {
		h, err := br.ReadString('\n')
		h = strings.TrimRight(h, "\r\n")
		if h == "" {
			break
		}
		if j := strings.IndexByte(h, ':'); j >= 0 {
			k, v := strings.ToLower(strings.TrimSpace(h[:j])), strings.TrimSpace(h[j+1:])
			switch k {
			case "cseq":
				r.cseq = v
			case "session":
				r.session = v
			}
		}
		if err != nil {
			break
		}
	}
	return r
}

func codeClass(c int) int64 {
	switch {
	case c >= 200 && c < 300:
		return 2
	case c == 455:
		return 455
	case c >= 400 && c < 500:
		return 4
	case c >= 500 && c < 600:
		return 5
	}
	return 0
}

func (r *wresp) val() Val {
	if !r.hasRTSP {
		return L(I(int64(r.code)), S(r.seq), I(0), I(0), S(""), I(0))
	}
	return L(I(int64(r.code)), S(r.seq), I(1), I(codeClass(r.rcode)), S(r.cseq), Bo(r.session != ""))
}

// ---------------------------------------------------------------- requests
const sentinel = "99999"

var methodNames = map[int64]string{0: "OPTIONS", 1: "DESCRIBE", 2: "ANNOUNCE", 3: "SETUP", 4: "PLAY", 5: "RECORD",
	6: "TEARDOWN", 7: "PAUSE", 8: "GET_PARAMETER", 9: "SET_PARAMETER", 10: "REDIRECT", 11: "FOOBAR"}

func rtspText(q Val) (string, bool) {
	m := q.At(2).Int()
	name, ok := methodNames[m]
	if !ok {
		name = "X" + strconv.FormatInt(m, 10)
	}
	us := q.At(4).Str()
	u, err := url.ParseRequestURI(us)
	if err != nil || u.Port() == "" || u.String() != us {
		return "", false // the generator promised a printable URL with an explicit port
	}
	var sb strings.Builder
	fmt.Fprintf(&sb, "%s %s RTSP/1.0\r\n", name, us)
	if cs := q.At(3).Str(); cs != "" {
		fmt.Fprintf(&sb, "CSeq: %s\r\n", cs)
	}
	if ts := q.At(5).Str(); m == 3 && ts != "" {
		fmt.Fprintf(&sb, "Transport: %s\r\n", ts)
	}
	sb.WriteString("\r\n")
	return sb.String(), true
}

// namesChannel: does the Transport header ask for an interleaved channel 0..255?  (Only used to
// decide how long a client that was told PLAY 200 waits for media; the verdict is the model's.)
func namesChannel(ts string) bool {
	for _, tok := range strings.Split(ts, ";") {
		kv := strings.SplitN(tok, "=", 2)
		if len(kv) == 2 && strings.TrimSpace(kv[0]) == "interleaved" {
			v := strings.Trim(kv[1], " \t\"")
			if i := strings.IndexByte(v, '-'); i >= 0 {
				v = strings.TrimSpace(v[:i])
			}
			if n, err := strconv.Atoi(v); err == nil && n >= 0 && n <= 255 {
				return true
			}
		}
	}
	return false
}

func wspText(cmd, channel, seq, body string) string {
	var sb strings.Builder
	fmt.Fprintf(&sb, "WSP/1.1 %s\r\n", cmd)
	if cmd == "INIT" {
		sb.WriteString("proto: rtsp\r\nhost: 127.0.0.1\r\nport: 554\r\n")
	} else if cmd == "GET_INFO" {
		sb.WriteString("proto: rtsp\r\n") // a message without any header line is malformed framing
	} else {
		fmt.Fprintf(&sb, "channel: %s\r\n", channel)
	}
	if seq != "" {
		fmt.Fprintf(&sb, "seq: %s\r\n", seq)
	}
	sb.WriteString("\r\n")
	sb.WriteString(body)
	return sb.String()
}

// ---------------------------------------------------------------- the world: pre-published streams
type world struct {
	ext map[string]*media.Stream
	seq uint16
}

func rtpPacket(seq uint16, audio bool) *rtp.Packet {
	// video: one non-IDR slice NAL; audio: one 4-byte AAC access unit (AU-headers-length 16, size 4)
	data := []byte{0x80, 96, byte(seq >> 8), byte(seq), 0, 0, 0, 1, 0x11, 0x22, 0x33, 0x44,
		0x41, 0x9a, 0x24, 0x6c, 0x41, 0x4f, 0xfe, 0xd0, 0x10, 0x20, 0x30, 0x40}
	ch := byte(rtp.ChannelVideo)
	if audio {
		data = []byte{0x80, 97, byte(seq >> 8), byte(seq), 0, 0, 0, 1, 0x55, 0x66, 0x77, 0x88,
			0x00, 0x10, 0x00, 0x20, 0xd1, 0xd2, 0xd3, 0xd4}
		ch = rtp.ChannelAudio
	}
	p := &rtp.Packet{Channel: ch, Data: data}
	if err := p.Header.Unmarshal(p.Data); err != nil {
		panic(err)
	}
	return p
}

func (w *world) registry(watch []Val) (Val, bool) {
	out := make([]Val, 0, len(watch))
	self := false
	for _, p := range watch {
		path := p.Str()
		s := media.Get(path)
		kind, cons := int64(0), int64(0)
		if s != nil {
			cons = int64(s.ConsumerCount())
			if s == w.ext[path] {
				kind = 1
			} else {
				kind = 2
			}
		}
		if kind == 2 || cons != 0 {
			self = true
		}
		out = append(out, L(I(kind), I(cons)))
	}
	return L(out...), self
}

// circuit breakers: a broken implementation must not turn every remaining case into a long wait
var (
	timeouts    int // waits for an answer that ran into their deadline (whole run)
	slowSettles int
	mediaMisses int // a client that was told PLAY 200 waited in vain for media
)

func (w *world) settledRegistry(watch []Val) Val {
	d := 4 * time.Second
	if slowSettles > 8 {
		d = 20 * time.Millisecond
	}
	deadline := time.Now().Add(d)
	for {
		r, self := w.registry(watch)
		if !self {
			return r
		}
		if time.Now().After(deadline) {
			slowSettles++
			return r
		}
		time.Sleep(200 * time.Microsecond)
	}
}

// feed publishes one round into every live pre-published stream: video(2k), audio(2k), video(2k+1).
// The consumer passes packets on in this order, so the client can tell when the whole round has
// arrived without knowing which tracks were set up: a video frame 2k is followed by the video
// frame 2k+1 as the round's last frame; an audio frame 2k that was not preceded by the video frame
// 2k means that video is not delivered and is itself the last one.
func (w *world) feed() (k uint16, anyConsumer bool) {
	w.seq++
	k = w.seq
	for _, s := range w.ext {
		if media.Get(s.Path()) == s {
			if s.ConsumerCount() > 0 {
				anyConsumer = true
			}
			s.WriteRtpPacket(rtpPacket(2*k, false))
			s.WriteRtpPacket(rtpPacket(2*k, true))
			s.WriteRtpPacket(rtpPacket(2*k+1, false))
		}
	}
	return
}

// an RTP frame on a data channel: '$', channel, length, RTP header
type frame struct {
	audio bool
	seq   uint16
}

func frameOf(msg []byte) (frame, bool) {
	if len(msg) < 8 || msg[0] != '$' {
		return frame{}, false // e.g. an empty message: not media
	}
	return frame{audio: msg[5]&0x7f == 97, seq: uint16(msg[6])<<8 | uint16(msg[7])}, true
}

func patience(d time.Duration) time.Duration {
	if timeouts > 4 {
		return 30 * time.Millisecond
	}
	return d
}

// ---------------------------------------------------------------- one case
func runCase(c Val) Val {
	start()
	if SdpText == nil {
		return L(S("!setup"), S("no SDP table"))
	}
	wspath := c.At(0).Str()
	envl, watch, reqs := c.At(1).List(), c.At(2).List(), c.At(3).List()

	w := &world{ext: map[string]*media.Stream{}}
	media.UnregistAll()
	defer media.UnregistAll()
	for _, e := range envl {
		path := e.At(0).Str()
		media.Regist(media.NewStream(path, SdpText(e.At(1).Int())))
		s := media.Get(path)
		if s == nil || s.Path() != path {
			return L(S("!setup"), S("stream not registered at "+path))
		}
		w.ext[path] = s
	}

	ctl, err := dial(wspath, "control")
	if err != nil {
		return L(S("!setup"), S(err.Error()))
	}
	defer ctl.ws.Close()
	var datas []*sock
	defer func() {
		for _, d := range datas {
			d.ws.Close()
		}
	}()

	// what a client knows from the answers it got
	established, channel := false, "424242"
	played, paused, joined := false, false, false
	interleaved := false // some SETUP named an interleaved channel (without one no track can be delivered)

	// media: RTP frames that arrive on a data channel after the JOIN answer
	drain := func() (fs []frame) {
		for _, d := range datas {
			for {
				select {
				case m := <-d.msgs:
					if f, ok := frameOf(m); ok {
						fs = append(fs, f)
					}
					continue
				default:
				}
				break
			}
		}
		return
	}
	waitAny := func(d time.Duration) []frame {
		deadline := time.Now().Add(d)
		for {
			if fs := drain(); len(fs) > 0 {
				return fs
			}
			if time.Now().After(deadline) {
				return nil
			}
			time.Sleep(100 * time.Microsecond)
		}
	}
	// roundDone: has the last frame of round k arrived (see feed)?
	roundDone := func(k uint16, fs []frame, sawVideo *bool) bool {
		for _, f := range fs {
			switch {
			case !f.audio && f.seq == 2*k:
				*sawVideo = true
			case !f.audio && f.seq == 2*k+1:
				return true
			case f.audio && f.seq == 2*k && !*sawVideo:
				return true
			}
		}
		return false
	}

	// collect reads the answers to one request: until the sentinel's answer (when one was sent), the
	// end of the connection, or the deadline
	collect := func(resps []Val, withSentinel bool, d time.Duration, atMost int) ([]Val, *wresp) {
		var first *wresp
		for n := 0; atMost == 0 || n < atMost; n++ {
			msg, st := ctl.next(patience(d))
			if st == gotEOF {
				break
			}
			if st == gotTimeout {
				timeouts++
				if withSentinel {
					// no answer to the sentinel: the channel is wedged; report and stop using it
					resps = append(resps, L(I(-1), S("!timeout"), I(0), I(0), S(""), I(0)))
					ctl.dead = true
				}
				break
			}
			r := parseWsp(msg)
			if withSentinel && r.cseq == sentinel { // recognised by its CSeq alone: a wrong seq must not wedge the run
				break
			}
			if first == nil {
				first = r
			}
			resps = append(resps, r.val())
		}
		return resps, first
	}
	sentinelText := func() string {
		return wspText("WRAP", channel, sentinel, "OPTIONS * RTSP/1.0\r\nCSeq: "+sentinel+"\r\n\r\n")
	}

	steps := make([]Val, 0, len(reqs))
	for _, q := range reqs {
		cmd, seq := q.At(0).Int(), q.At(1).Str()
		resps := []Val{}
		switch {
		case cmd == 5 || cmd == 6:
			// a new data channel
			ds, err := dial(wspath, "data")
			if err != nil {
				return L(S("!setup"), S(err.Error()))
			}
			datas = append(datas, ds)
			ch := channel
			if cmd == 6 {
				ch = "999999999999"
			}
			ds.send(wspText("JOIN", ch, seq, ""))
			msg, st := ds.next(patience(5 * time.Second))
			if st == gotTimeout {
				timeouts++
			}
			if st == gotMsg {
				r := parseWsp(msg)
				resps = append(resps, r.val())
				if r.code == 200 {
					joined = true
				}
			}
		case ctl.dead:
			// nothing can be sent any more
		default:
			var text string
			teardown := false
			switch cmd {
			case 0:
				text = wspText("INIT", "", seq, "")
			case 1:
				text = wspText("GET_INFO", "", seq, "")
			case 2:
				text = wspText("SWITCH", channel, seq, "")
			case 3:
				body, ok := rtspText(q)
				if !ok {
					return L(S("!badcase"))
				}
				teardown = q.At(2).Int() == 6
				if q.At(2).Int() == 3 && namesChannel(q.At(5).Str()) {
					interleaved = true
				}
				text = wspText("WRAP", channel, seq, body)
			default:
				text = wspText("JOIN", channel, seq, "")
			}
			ctl.send(text)
			var first *wresp
			if !established {
				switch cmd {
				case 0:
					resps, first = collect(resps, false, 6*time.Second, 1)
					if first != nil && first.code == 200 && first.channel != "" {
						established, channel = true, first.channel
						// the session answers once it runs: a doubled INIT answer would come before this one
						ctl.send(sentinelText())
						resps, _ = collect(resps, true, 6*time.Second, 0)
					}
				case 1:
					// the handshake loop has no state-free request: a short look for an (unexpected) answer
					msg, st := ctl.next(3 * time.Millisecond)
					if st == gotMsg {
						resps = append(resps, parseWsp(msg).val())
					}
				default:
					resps, _ = collect(resps, false, 3*time.Second, 0)
				}
			} else if teardown {
				// after TEARDOWN the end of the exchange is the server closing the channel
				resps, first = collect(resps, false, 5*time.Second, 0)
			} else {
				ctl.send(sentinelText())
				resps, first = collect(resps, true, 6*time.Second, 0)
			}
			if established && cmd == 3 && first != nil && first.hasRTSP && codeClass(first.rcode) == 2 {
				switch q.At(2).Int() {
				case 4:
					played, paused = true, false
				case 7:
					if played {
						paused = true
					}
				}
			}
		}
		// has the server closed the control channel?
		if !ctl.dead {
			select {
			case <-ctl.closed:
				if len(ctl.msgs) == 0 {
					ctl.dead = true
				}
			default:
			}
		}
		var reg Val
		if ctl.dead {
			reg = w.settledRegistry(watch)
		} else {
			reg, _ = w.registry(watch)
		}

		// media: one round of packets into every live pre-published stream after each step
		got := len(drain()) > 0
		_, consuming := w.feed()
		alive := false
		for _, d := range datas {
			select {
			case <-d.closed:
			default:
				alive = true
			}
		}
		if consuming && alive && !ctl.dead {
			believes := played && !paused && joined && interleaved
			d := 15 * time.Millisecond
			if believes {
				d = 2 * time.Second
				if mediaMisses > 3 {
					d = 300 * time.Millisecond
				}
			}
			// setDataChannel runs after the JOIN answer is written, so the first packets may be
			// dropped: keep publishing until something arrives
			deadline := time.Now().Add(d)
			seen := false
			for {
				if len(waitAny(2*time.Millisecond)) > 0 {
					seen = true
					break
				}
				if time.Now().After(deadline) {
					break
				}
				w.feed()
			}
			if seen {
				got = true
				// media flows: one more round, and wait for its last frame, so that nothing is in
				// flight when the next request (PAUSE, TEARDOWN) is sent
				k, _ := w.feed()
				sawVideo := false
				limit := time.Now().Add(patience(2 * time.Second))
				for {
					if roundDone(k, drain(), &sawVideo) {
						break
					}
					if time.Now().After(limit) {
						timeouts++
						break
					}
					time.Sleep(100 * time.Microsecond)
				}
			} else if believes {
				mediaMisses++
			}
		} else if len(drain()) > 0 {
			got = true
		}
		steps = append(steps, L(L(resps...), Bo(ctl.dead), reg, Bo(got)))
	}
	// the client disconnects
	ctl.ws.Close()
	final := w.settledRegistry(watch)
	return L(L(steps...), final)
}
