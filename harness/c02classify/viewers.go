package c02classify

// flv_viewers: an FLV late joiner next to other viewers.  The published tags are shared objects
// (FlvCache's GOP queue, every viewer's queue and the joiner's replay hold the same *flv.Tag); the
// other viewers are real flv.Writer consumers (what http-flv / ws-flv do) writing into a buffer.
//
//	case (gopon ((tagtype ts data) ...) (event ...)) -> (joins origs)
//	event: (0) publish next tag | (1) viewer attaches | (2 j m) viewer j writes up to m tags | (3) joiner attaches
//	joins: per (3) event ((replay at join) (replay at end)), replay = ((index ts data) ...)
//	origs: ((ts data) ...) of the published tag objects at the end

import (
	"bytes"

	"github.com/cnotch/ipchub/av/format/flv"
	"github.com/cnotch/ipchub/media/cache"
	"github.com/cnotch/queue"

	. "vh/lib"
)

type viewer struct {
	q   *queue.SyncQueue
	out bytes.Buffer
	w   *flv.Writer
}

func (v *viewer) write(n int) {
	for i := 0; i < n; i++ {
		e, ok := v.q.Queue().Pop()
		if !ok {
			return
		}
		v.w.WriteFlvTag(e.(*flv.Tag))
	}
}

func readReplay(elems []queue.Elem) Val {
	out := []Val{}
	for _, e := range elems {
		t, _ := e.(*flv.Tag)
		if t == nil {
			out = append(out, L(I(-1), I(-1), B(nil)))
			continue
		}
		out = append(out, L(I(int64(t.StreamID)-1), U(uint64(t.Timestamp)), B(append([]byte(nil), t.Data...))))
	}
	return L(out...)
}

func flvViewers(c Val) Val {
	gop := c.At(0).Bool()
	var tags []*flv.Tag
	for i, tv := range c.At(1).List() {
		tags = append(tags, mkTag(tv.At(0).Int(), tv.At(1).Int(), append([]byte(nil), tv.At(2).Bytes()...), uint32(i+1)))
	}
	fc := cache.NewFlvCache(gop)
	var viewers []*viewer
	type join struct {
		elems  []queue.Elem
		atJoin Val
	}
	var joins []join
	next := 0
	for _, e := range c.At(2).List() {
		switch e.At(0).Int() {
		case 0: // media.Stream.WriteFlvTag: cache, then every attached consumer
			if next < len(tags) {
				fc.CachePack(tags[next])
				for _, v := range viewers {
					v.q.Queue().Push(tags[next])
				}
				next++
			}
		case 1:
			v := &viewer{q: queue.NewSyncQueue()}
			w, err := flv.NewWriter(&v.out, 5)
			if err != nil {
				return L(S("!err"), S(err.Error()))
			}
			v.w = w
			fc.PushTo(v.q)
			viewers = append(viewers, v)
		case 2:
			if j := int(e.At(1).Int()); j < len(viewers) {
				viewers[j].write(int(e.At(2).Int()))
			}
		default:
			elems := pushed(fc)
			joins = append(joins, join{elems: elems, atJoin: readReplay(elems)})
		}
	}
	for _, v := range viewers { // every routine drains its queue
		v.write(v.q.Queue().Len())
	}
	js := []Val{}
	for _, j := range joins {
		js = append(js, L(j.atJoin, readReplay(j.elems)))
	}
	origs := []Val{}
	for _, t := range tags {
		origs = append(origs, L(U(uint64(t.Timestamp)), B(t.Data)))
	}
	return L(L(js...), L(origs...))
}
