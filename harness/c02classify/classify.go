// Package c02classify: harness commands for the byte-level part of C02 (packet classification of
// the pack caches).  The real cache types are driven black-box: CachePack + PushTo into a queue.
//
//	classify      case (codec gopon ((channel payload [rtp-timestamp]) ...)) -> (kinds pushed)
//	classify_flv  case (gopon ((tagtype timestamp data) ...))       -> (kinds pushed origs)
//	flv_producer  see producer.go
//	flv_viewers   see viewers.go
//
// kinds: per packet the slot the cache put it in, found by probing a cache pre-loaded with known
// parameter-set packets and a key packet: 0 ignored, 1 appended to the GOP, 2 restarted the GOP
// (CachePack returned true), 3 replaced the SPS / video sequence header, 4 the PPS / audio sequence
// header, 5 the VPS / metadata; -1 CachePack panicked; -9 anything else.
package c02classify

import (
	"github.com/cnotch/ipchub/av/format/flv"
	"github.com/cnotch/ipchub/av/format/rtp"
	"github.com/cnotch/ipchub/media/cache"
	"github.com/cnotch/queue"

	. "vh/lib"
)

type packCache interface {
	CachePack(pack cache.Pack) bool
	PushTo(q *queue.SyncQueue) int
}

func newRtpCache(codec int64, gop bool) packCache {
	if codec == 0 {
		return cache.NewH264Cache(gop)
	}
	return cache.NewHevcCache(gop)
}

func mkPkt(channel byte, payload []byte) *rtp.Packet { return mkPktTs(channel, payload, 0) }

// RTP packet with the given RTP timestamp (case data: the caches must not look at it)
func mkPktTs(channel byte, payload []byte, ts uint32) *rtp.Packet {
	data := append([]byte{0x80, 96, 0, 1, byte(ts >> 24), byte(ts >> 16), byte(ts >> 8), byte(ts), 0, 0, 0, 1}, payload...)
	p := &rtp.Packet{Channel: channel, Data: data}
	if channel == rtp.ChannelVideo || channel == rtp.ChannelAudio {
		if err := p.Header.Unmarshal(data); err != nil {
			panic("harness: rtp header: " + err.Error())
		}
	}
	return p
}

// CachePack with the panic of the code under test turned into ok=false
func safeCache(c packCache, p cache.Pack) (key bool, ok bool) {
	defer func() {
		if recover() != nil {
			key, ok = false, false
		}
	}()
	return c.CachePack(p), true
}

func pushed(c packCache) []queue.Elem {
	q := queue.NewSyncQueue()
	c.PushTo(q)
	return append([]queue.Elem(nil), q.Queue().Elems()...)
}

// where did x go, given the cache held base (params..., key) before
func slotOf(base []interface{}, after []queue.Elem, same func(a interface{}, b queue.Elem) bool, x interface{}, key bool, nparams int) int64 {
	n := len(base)
	eq := func(want []interface{}) bool {
		if len(want) != len(after) {
			return false
		}
		for i := range want {
			if !same(want[i], after[i]) {
				return false
			}
		}
		return true
	}
	if key {
		want := append(append([]interface{}{}, base[:n-1]...), x)
		if eq(want) {
			return 2
		}
		return -9
	}
	if eq(base) {
		return 0
	}
	if eq(append(append([]interface{}{}, base...), x)) {
		return 1
	}
	for i := 0; i < nparams; i++ {
		want := append([]interface{}{}, base...)
		want[i] = x
		if eq(want) {
			if nparams == 2 { // H.264: sps pps
				return int64(3 + i)
			}
			return []int64{5, 3, 4}[i] // vps/metadata, sps/video header, pps/audio header
		}
	}
	return -9
}

func rtpKind(codec int64, p *rtp.Packet) int64 {
	c := newRtpCache(codec, true)
	var base []interface{}
	if codec == 0 {
		base = []interface{}{mkPkt(0, []byte{0x67, 1, 2}), mkPkt(0, []byte{0x68, 1, 2}), mkPkt(0, []byte{0x65, 1, 2})}
	} else {
		base = []interface{}{mkPkt(0, []byte{0x40, 1, 2}), mkPkt(0, []byte{0x42, 1, 2}), mkPkt(0, []byte{0x44, 1, 2}), mkPkt(0, []byte{0x26, 1, 2})}
	}
	for _, b := range base {
		c.CachePack(b.(*rtp.Packet))
	}
	key, ok := safeCache(c, p)
	if !ok {
		return -1
	}
	same := func(a interface{}, b queue.Elem) bool { bp, _ := b.(*rtp.Packet); return a.(*rtp.Packet) == bp }
	return slotOf(base, pushed(c), same, p, key, len(base)-1)
}

func mkTag(tt int64, ts int64, data []byte, id uint32) *flv.Tag {
	return &flv.Tag{TagType: byte(tt), DataSize: uint32(len(data)), Timestamp: uint32(ts), StreamID: id, Data: data}
}

var onMetaData = []byte{2, 0, 10, 'o', 'n', 'M', 'e', 't', 'a', 'D', 'a', 't', 'a', 8, 0, 0, 0, 0}

func flvKind(t *flv.Tag) int64 {
	c := cache.NewFlvCache(true)
	base := []interface{}{
		mkTag(18, 7, onMetaData, 1000001), mkTag(9, 7, []byte{0x17, 0, 0, 0, 0}, 1000002),
		mkTag(8, 7, []byte{0xaf, 0, 0x12, 0x10}, 1000003), mkTag(9, 7, []byte{0x17, 1, 0, 0, 0}, 1000004)}
	for _, b := range base {
		c.CachePack(b.(*flv.Tag))
	}
	x := *t
	key, ok := safeCache(c, &x)
	if !ok {
		return -1
	}
	same := func(a interface{}, b queue.Elem) bool {
		bt, _ := b.(*flv.Tag)
		return bt != nil && a.(*flv.Tag).StreamID == bt.StreamID
	}
	return slotOf(base, pushed(c), same, &x, key, 3)
}

// Commands returns the harness commands of this package.
func Commands() map[string]func(Val) Val {
	m := map[string]func(Val) Val{}
	m["classify"] = func(c Val) Val {
		codec, gop := c.At(0).Int(), c.At(1).Bool()
		var pkts []*rtp.Packet
		for _, pv := range c.At(2).List() {
			pkts = append(pkts, mkPktTs(byte(pv.At(0).Int()), pv.At(1).Bytes(), uint32(pv.At(2).Int())))
		}
		kinds := []Val{}
		for _, p := range pkts {
			kinds = append(kinds, I(rtpKind(codec, p)))
		}
		ch := newRtpCache(codec, gop)
		index := map[*rtp.Packet]int64{}
		for i, p := range pkts {
			index[p] = int64(i)
			safeCache(ch, p)
		}
		out := []Val{}
		for _, e := range pushed(ch) {
			p, _ := e.(*rtp.Packet)
			if i, ok := index[p]; ok {
				out = append(out, I(i))
			} else {
				out = append(out, I(-1))
			}
		}
		return L(L(kinds...), L(out...))
	}
	m["classify_flv"] = func(c Val) Val {
		gop := c.At(0).Bool()
		var tags []*flv.Tag
		for i, tv := range c.At(1).List() {
			tags = append(tags, mkTag(tv.At(0).Int(), tv.At(1).Int(), tv.At(2).Bytes(), uint32(i+1)))
		}
		kinds := []Val{}
		for _, t := range tags {
			kinds = append(kinds, I(flvKind(t)))
		}
		ch := cache.NewFlvCache(gop)
		for _, t := range tags {
			safeCache(ch, t)
		}
		out := []Val{}
		for _, e := range pushed(ch) {
			t, _ := e.(*flv.Tag)
			if t == nil {
				out = append(out, L(I(-1), I(-1)))
			} else {
				out = append(out, L(I(int64(t.StreamID)-1), U(uint64(t.Timestamp))))
			}
		}
		origs := []Val{}
		for _, t := range tags {
			origs = append(origs, U(uint64(t.Timestamp)))
		}
		return L(L(kinds...), L(out...), L(origs...))
	}
	m["flv_producer"] = flvProducer
	m["flv_viewers"] = flvViewers
	return m
}
