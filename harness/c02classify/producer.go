package c02classify

// flv_producer: frames (NAL units) through the REAL flv.Muxer and its packetizers into a REAL
// FlvCache (cache_gop on) by way of a TagWriter that calls CachePack, then PushTo.
//
//	case (hevc aac ((mediatype dts_ns pts_ns payload) ...)) -> (kinds pushed origs)
//
// kinds: for every tag the muxer wrote, in order, the slot the FLV cache puts it in (probe, see
// classify.go); pushed: (index timestamp) of what PushTo delivers; origs: the tags' timestamps
// read back after PushTo.

import (
	"encoding/base64"
	"strings"
	"sync"
	"sync/atomic"
	"time"

	"github.com/cnotch/ipchub/av/codec"
	"github.com/cnotch/ipchub/av/format/flv"
	"github.com/cnotch/ipchub/media/cache"
	"github.com/cnotch/ipchub/utils/verifhook"
	"github.com/cnotch/xlog"

	. "vh/lib"
)

// log core: tells the harness when the muxer goroutine died in a panic
type prodCore struct {
	mu     sync.Mutex
	died   chan struct{}
	closed bool
}

func (c *prodCore) Enabled(l xlog.Level) bool { return l >= xlog.ErrorLevel }
func (c *prodCore) Sync() error               { return nil }
func (c *prodCore) Write(e xlog.Entry) error {
	if strings.Contains(e.Message, "routine panic") {
		c.mu.Lock()
		if !c.closed {
			c.closed = true
			close(c.died)
		}
		c.mu.Unlock()
	}
	return nil
}

// the muxer goroutine passes the schedule point "worker.pop" (id 2) once at start and once after
// every frame it has finished with: the (n+1)-th pass means all n frames have been processed
var (
	prodPops   int64
	prodTarget int64
	prodIdle   chan struct{}
)

func prodPoint(name string, id uint32) {
	if id == 2 && name == "worker.pop" {
		if atomic.AddInt64(&prodPops, 1) == atomic.LoadInt64(&prodTarget) {
			close(prodIdle)
		}
	}
}

// TagWriter: what media.Stream.WriteFlvTag does with the cache
type prodSink struct {
	cache *cache.FlvCache
	tags  []*flv.Tag
}

func (s *prodSink) WriteFlvTag(tag *flv.Tag) error {
	tag.StreamID = uint32(len(s.tags) + 1) // identity of the tag for the observation
	s.tags = append(s.tags, tag)
	s.cache.CachePack(tag)
	return nil
}

func b64(s string) []byte { b, _ := base64.StdEncoding.DecodeString(s); return b }

func prodMetas(hevc, aac bool) (*codec.VideoMeta, *codec.AudioMeta) {
	vm := &codec.VideoMeta{Codec: "H264", Sps: []byte{0x67, 0x42, 0xc0, 0x1e, 0xd9, 0x00, 0xa0, 0x47, 0xfe, 0xc8},
		Pps: []byte{0x68, 0xce, 0x3c, 0x80}, Width: 640, Height: 480, FrameRate: 25}
	if hevc {
		vm = &codec.VideoMeta{Codec: "H265", Vps: b64("QAEMAf//AWAAAAMAkAAAAwAAAwBdlZgJ"),
			Sps: b64("QgEBAWAAAAMAkAAAAwAAAwBdoAKAgC0WWVmkkyuAQAAA+kAAF3AC"), Pps: b64("RAHA8vA8kA=="),
			Width: 640, Height: 480, FrameRate: 25}
	}
	am := &codec.AudioMeta{}
	if aac {
		am = &codec.AudioMeta{Codec: "AAC", Sps: []byte{0x12, 0x10}, SampleRate: 44100, SampleSize: 16, Channels: 2}
	}
	return vm, am
}

func flvProducer(c Val) Val {
	hevc, aac, frames := c.At(0).Bool(), c.At(1).Bool(), c.At(2).List()
	vm, am := prodMetas(hevc, aac)
	core := &prodCore{died: make(chan struct{})}
	sink := &prodSink{cache: cache.NewFlvCache(true)}
	atomic.StoreInt64(&prodPops, 0)
	atomic.StoreInt64(&prodTarget, int64(len(frames))+1)
	prodIdle = make(chan struct{})
	verifhook.SetPoint(prodPoint)
	defer verifhook.SetPoint(nil)

	mux, err := flv.NewMuxer(vm, am, sink, xlog.New(core))
	if err != nil {
		return L(S("!err"), S(err.Error()))
	}
	for _, f := range frames {
		mux.WriteFrame(&codec.Frame{MediaType: codec.MediaType(f.At(0).Int()), Dts: f.At(1).Int(),
			Pts: f.At(2).Int(), Payload: f.At(3).Bytes()})
	}
	select {
	case <-prodIdle:
	case <-core.died:
	case <-time.After(20 * time.Second):
		return L(S("!hang"), S("muxer did not drain"))
	}
	verifhook.SetPoint(nil)
	mux.Close()

	kinds := []Val{}
	for _, t := range sink.tags {
		kinds = append(kinds, I(flvKind(t)))
	}
	out := []Val{}
	for _, e := range pushed(sink.cache) {
		t, _ := e.(*flv.Tag)
		if t == nil {
			out = append(out, L(I(-1), I(-1)))
		} else {
			out = append(out, L(I(int64(t.StreamID)-1), U(uint64(t.Timestamp))))
		}
	}
	origs := []Val{}
	for _, t := range sink.tags {
		origs = append(origs, U(uint64(t.Timestamp)))
	}
	return L(L(kinds...), L(out...), L(origs...))
}
