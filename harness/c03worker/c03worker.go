// Package c03worker replays schedules of the conversion-goroutine LTS (coq/Model/C03Worker.v) on the
// real converters of a stream — rtp.Demuxer (k = 1), flv.Muxer (k = 2), mpegts.Muxer (k = 3) —
// through the schedule points worker.pop / worker.got, and checks on a real media.Stream that no
// conversion goroutine is left after Close.
package c03worker

import (
	"bytes"
	"fmt"
	"runtime"
	"strconv"
	"sync"

	"github.com/cnotch/ipchub/av/codec"
	"github.com/cnotch/ipchub/av/format/flv"
	"github.com/cnotch/ipchub/av/format/mpegts"
	"github.com/cnotch/ipchub/av/format/rtp"
	"github.com/cnotch/ipchub/media"
	"github.com/cnotch/xlog"

	. "vh/lib"
	"vh/sched"
)

// Commands of this package, merged into the C03 harness binary.
func Commands() map[string]func(Val) Val {
	return map[string]func(Val) Val{"C03_worker": Run, "C03_conv_e2e": E2E}
}

// sink records the item ids the conversion hands on, in order (called on the worker goroutine)
type sink struct {
	mu  sync.Mutex
	out []int64
}

func (s *sink) add(id int64) { s.mu.Lock(); s.out = append(s.out, id); s.mu.Unlock() }

func idAt(b []byte) int64 {
	return int64(b[0])<<24 | int64(b[1])<<16 | int64(b[2])<<8 | int64(b[3])
}

// item payload: one non-IDR slice NAL unit carrying the id
func nal(id int64) []byte { return []byte{0x41, byte(id >> 24), byte(id >> 16), byte(id >> 8), byte(id)} }

// rtp demuxer: every single-NAL packet becomes one frame
func (s *sink) WriteFrame(f *codec.Frame) error {
	if len(f.Payload) == 5 && f.Payload[0] == 0x41 {
		s.add(idAt(f.Payload[1:]))
	}
	return nil
}

// flv muxer: every video frame becomes one NALU tag (after the metadata and sequence-header tags)
func (s *sink) WriteFlvTag(t *flv.Tag) error {
	if t.TagType == flv.TagTypeVideo && len(t.Data) >= 10 && t.Data[1] == flv.H2645PacketTypeNALU {
		s.add(idAt(t.Data[len(t.Data)-4:]))
	}
	return nil
}

// ts muxer: every slice frame becomes one mpegts frame
func (s *sink) WriteMpegtsFrame(f *mpegts.Frame) error {
	if len(f.Payload) == 5 && f.Payload[0] == 0x41 {
		s.add(idAt(f.Payload[1:]))
	}
	return nil
}

type converter struct {
	push  func(id int64)
	close func()
}

func rtpPacket(id int64) *rtp.Packet {
	d := make([]byte, 12+5)
	d[0] = 0x80
	d[1] = 96
	d[2], d[3] = byte(id>>8), byte(id)
	copy(d[12:], nal(id))
	p := &rtp.Packet{Channel: rtp.ChannelVideo, Data: d}
	if err := p.Header.Unmarshal(d); err != nil {
		panic(err)
	}
	return p
}

func build(k int64, s *sink) converter {
	logger := xlog.New(xlog.NewNopCore())
	vm := &codec.VideoMeta{Codec: "H264", ClockRate: 90000, Width: 16, Height: 16, FrameRate: 25,
		Sps: []byte{0x67, 0x64, 0x00, 0x1f, 1, 2, 3}, Pps: []byte{0x68, 1, 2, 3}}
	switch k {
	case 1:
		am := &codec.AudioMeta{}
		d, err := rtp.NewDemuxer(vm, am, s, logger)
		if err != nil {
			panic(err)
		}
		return converter{func(id int64) { d.WriteRtpPacket(rtpPacket(id)) }, func() { d.Close() }}
	case 2:
		am := &codec.AudioMeta{}
		m, err := flv.NewMuxer(vm, am, s, logger)
		if err != nil {
			panic(err)
		}
		return converter{func(id int64) {
			m.WriteFrame(&codec.Frame{MediaType: codec.MediaTypeVideo, Dts: id * 40e6, Pts: id * 40e6, Payload: nal(id)})
		}, func() { m.Close() }}
	default:
		am := &codec.AudioMeta{Codec: "AAC", SampleRate: 44100, Channels: 2, SampleSize: 16, Sps: []byte{0x12, 0x10}}
		m, err := mpegts.NewMuxer(vm, am, s, logger)
		if err != nil {
			panic(err)
		}
		return converter{func(id int64) {
			m.WriteFrame(&codec.Frame{MediaType: codec.MediaTypeVideo, Dts: id * 40e6, Pts: id * 40e6, Payload: nal(id)})
		}, func() { m.Close() }}
	}
}

var statusCode = map[string]int64{"": 0, "worker.pop": 1, "worker.got": 2, "blocked": 3, "done": 5}

// Run replays one case (k push items hsched) and returns (pc (out ..) kpc todo).
func Run(c Val) Val {
	k := c.At(0).Int()
	items := c.At(2).List()
	ctl := sched.New()
	var rmu sync.Mutex
	adopted := false
	ctl.Role = func(point string, id uint32) string {
		if (point == "worker.pop" || point == "worker.got") && int64(id) == k {
			rmu.Lock()
			defer rmu.Unlock()
			if !adopted {
				adopted = true
				return "worker"
			}
		}
		return ""
	}
	ctl.Allow = func(thread, point string) bool {
		switch thread {
		case "worker":
			return point == "worker.pop" || point == "worker.got"
		case "close":
			return point == "h.start"
		default:
			return point == "h.start" || point == "h.prod"
		}
	}
	sk := &sink{}
	cv := build(k, sk)
	ctl.Settle() // the worker has tested closed = false and is parked at worker.pop
	var tmu sync.Mutex
	todo := len(items)
	ctl.Go("close", func() { cv.close() })
	ctl.Go("prod", func() {
		for _, it := range items {
			cv.push(it.Int())
			tmu.Lock()
			todo--
			tmu.Unlock()
			ctl.Here("h.prod")
		}
	})
	for _, tv := range c.At(3).List() {
		switch tv.Int() {
		case 0:
			ctl.Step("worker")
		case 1:
			ctl.Step("close")
		default:
			ctl.Step("prod")
		}
	}
	wst, ok := statusCode[ctl.Status("worker")]
	if !ok {
		panic(fmt.Sprintf("c03worker: unexpected worker status %q", ctl.Status("worker")))
	}
	kst := int64(0)
	switch ctl.Status("close") {
	case "h.start":
	case "done":
		kst = 5
	default:
		panic(fmt.Sprintf("c03worker: unexpected closer status %q", ctl.Status("close")))
	}
	sk.mu.Lock()
	outs := make([]Val, len(sk.out))
	for i, id := range sk.out {
		outs[i] = I(id)
	}
	sk.mu.Unlock()
	tmu.Lock()
	td := todo
	tmu.Unlock()
	obs := L(I(wst), L(outs...), I(kst), I(int64(td)))
	// let everything run to its end before the next case installs its controller
	ctl.Finish()
	cv.close()
	ctl.Settle()
	return obs
}

// ---------------------------------------------------------------- a real media.Stream

const sdpH264AAC = "v=0\r\no=- 0 0 IN IP4 127.0.0.1\r\ns=t\r\nc=IN IP4 127.0.0.1\r\nt=0 0\r\n" +
	"m=video 0 RTP/AVP 96\r\na=rtpmap:96 H264/90000\r\n" +
	"a=fmtp:96 packetization-mode=1; sprop-parameter-sets=Z2QAH6zZQFAFuhAAAAMAEAAAAwPI8YMZYA==,aO+8sA==; profile-level-id=64001F\r\n" +
	"a=control:streamid=0\r\n" +
	"m=audio 0 RTP/AVP 97\r\na=rtpmap:97 MPEG4-GENERIC/44100/2\r\n" +
	"a=fmtp:97 profile-level-id=1;mode=AAC-hbr;sizelength=13;indexlength=3;indexdeltalength=3; config=121056E500\r\n" +
	"a=control:streamid=1\r\n"

var processFrames = [][]byte{[]byte("rtp.(*Demuxer).process"), []byte("flv.(*Muxer).process"), []byte("mpegts.(*Muxer).process")}

// conversion goroutines alive in the process, per converter kind
func countConverters() [3]int64 {
	buf := make([]byte, 1<<20)
	for {
		n := runtime.Stack(buf, true)
		if n < len(buf) {
			buf = buf[:n]
			break
		}
		buf = make([]byte, 2*len(buf))
	}
	var out [3]int64
	for _, blk := range bytes.Split(buf, []byte("\n\n")) {
		for i, f := range processFrames {
			if bytes.Contains(blk, f) {
				out[i]++
			}
		}
	}
	return out
}

var quiet sync.Once
var seq int

// E2E: case (mode npkts order) -> ((before ..) (during ..) (after ..)), three counts each
// (rtp demuxer, flv muxer, ts muxer goroutines in the process).
// mode 0: the converters run free; packets are written, everything settles, then Stream.Close().
// mode 1: the converters are held at worker.pop (closed = false tested) while the packets are
//         written and Stream.Close() runs to completion; then they are released in the given order.
// mode 2: as mode 1, but before the Close every converter is stepped through the packets written
//         (2 steps each), so that it is parked at worker.pop on an empty queue when Close runs.
func E2E(c Val) Val {
	quiet.Do(func() { xlog.ReplaceGlobal(xlog.New(xlog.NewNopCore())) })
	mode, n := c.At(0).Int(), int(c.At(1).Int())
	ctl := sched.New()
	ctl.Settle()
	before := countConverters()
	var rmu sync.Mutex
	taken := map[uint32]bool{}
	ctl.Role = func(point string, id uint32) string {
		if mode >= 1 && point == "worker.pop" && id >= 1 && id <= 3 {
			rmu.Lock()
			defer rmu.Unlock()
			if !taken[id] {
				taken[id] = true
				return "w" + strconv.Itoa(int(id))
			}
		}
		return ""
	}
	ctl.Allow = func(thread, point string) bool {
		if thread == "close" {
			return point == "h.start"
		}
		return point == "worker.pop" || point == "worker.got"
	}
	seq++
	s := media.NewStream("/c03conv/"+strconv.Itoa(seq), sdpH264AAC)
	ctl.Settle()
	during := countConverters()
	for i := 0; i < n; i++ {
		s.WriteRtpPacket(rtpPacket(int64(i + 1)))
	}
	ctl.Settle()
	if mode == 2 {
		for _, name := range []string{"w1", "w2", "w3"} {
			for j := 0; j < 2*n; j++ {
				ctl.Step(name)
			}
		}
	}
	ctl.Go("close", func() { s.Close() })
	ctl.Step("close")
	if mode >= 1 {
		for _, ov := range c.At(2).List() {
			name := "w" + strconv.Itoa(int(ov.Int()))
			for j := 0; j < 4; j++ { // two steps suffice (C03_worker_ends_within_two_steps)
				ctl.Step(name)
			}
		}
	}
	ctl.Finish()
	after := countConverters()
	v := func(a [3]int64) Val { return L(I(a[0]), I(a[1]), I(a[2])) }
	return L(v(before), v(during), v(after))
}
