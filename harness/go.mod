module vh

go 1.14

require (
	github.com/cnotch/ipchub v0.0.0
	github.com/cnotch/queue v0.0.0-20201224060551-4191569ce8f6
	github.com/cnotch/scheduler v0.0.0-20200522024700-1d2da93eefc5
	github.com/cnotch/xlog v0.0.0-20201208005456-cfda439cd3a0
	github.com/gorilla/websocket v1.4.2
	github.com/pion/rtp v1.6.2
)

replace github.com/cnotch/ipchub => /repo
