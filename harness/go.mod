module vh

go 1.14

require github.com/cnotch/ipchub v0.0.0

replace github.com/cnotch/ipchub => /repo
