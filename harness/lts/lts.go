// Package lts replays a schedule of the stream LTS (coq/Model/StreamLts.v) on a real media.Stream.
package lts

import (
	"fmt"
	"os"
	"strconv"
	"strings"
	"sync"

	"github.com/cnotch/ipchub/av/format/flv"
	"github.com/cnotch/ipchub/av/format/rtp"
	"github.com/cnotch/ipchub/config"
	"github.com/cnotch/ipchub/media"
	"github.com/cnotch/xlog"

	. "vh/lib"
	"vh/sched"
)

const sdpH264 = "v=0\r\no=- 0 0 IN IP4 127.0.0.1\r\ns=t\r\nc=IN IP4 127.0.0.1\r\nt=0 0\r\n" +
	"m=video 0 RTP/AVP 96\r\na=rtpmap:96 H264/90000\r\n" +
	"a=fmtp:96 packetization-mode=1; sprop-parameter-sets=Z2QAH6zZQFAFuhAAAAMAEAAAAwPI8YMZYA==,aO+8sA==; profile-level-id=64001F\r\n" +
	"a=control:streamid=0\r\n" +
	"m=audio 0 RTP/AVP 97\r\na=rtpmap:97 MPEG4-GENERIC/44100/2\r\n" +
	"a=fmtp:97 profile-level-id=1;mode=AAC-hbr;sizelength=13;indexlength=3;indexdeltalength=3; config=121056E500\r\n" +
	"a=control:streamid=1\r\n"

const sdpH265 = "v=0\r\no=- 0 0 IN IP4 127.0.0.1\r\ns=t\r\nc=IN IP4 127.0.0.1\r\nt=0 0\r\n" +
	"m=video 0 RTP/AVP 96\r\na=rtpmap:96 H265/90000\r\na=control:streamid=0\r\n" +
	"m=audio 0 RTP/AVP 97\r\na=rtpmap:97 MPEG4-GENERIC/44100/2\r\n" +
	"a=fmtp:97 profile-level-id=1;mode=AAC-hbr;sizelength=13;indexlength=3;indexdeltalength=3; config=121056E500\r\n" +
	"a=control:streamid=1\r\n"

// HEVC with the parameter sets in the SDP (service/rtsp/sdp_test.go): the depacketizer and the FLV muxer are
// ready from the first packet on (chain mode)
var sdpH265Sprop = strings.Replace(sdpH265, "a=rtpmap:96 H265/90000\r\n",
	"a=rtpmap:96 H265/90000\r\na=fmtp:96 sprop-vps=QAEMAf//BAgAAAMAnQgAAAMAAF26AkA=; "+
		"sprop-sps=QgEBBAgAAAMAnQgAAAMAAF2wAoCALRZbqSTK4BAAAAMAEAAAAwHggA==; sprop-pps=RAHBcrRiQA==\r\n", 1)

// chain mode (case field 13 = per consumer: 1 = FLV consumer): RTP packets are published, the FLV consumers get
// what the conversion chain (rtp demuxer -> FLV muxer -> WriteFlvTag) makes of them.  The converter goroutines
// are not controlled: after every step of the publisher the controller waits until they are idle again.
var chainMode bool

// the same streams with G.711 audio (raw samples: the first payload byte is arbitrary, no depacketizer)
var sdpH264PCMA = sdpH264[:strings.Index(sdpH264, "m=audio")] +
	"m=audio 0 RTP/AVP 8\r\na=rtpmap:8 PCMA/8000\r\na=control:streamid=1\r\n"
var sdpH265PCMA = sdpH265[:strings.Index(sdpH265, "m=audio")] +
	"m=audio 0 RTP/AVP 8\r\na=rtpmap:8 PCMA/8000\r\na=control:streamid=1\r\n"

// MakeRaw builds the packet of a case entry (id _ channel payload): the given bytes after a 12-byte RTP
// header, on the given channel (0 video, 1 video RTCP, 2 audio, 3 audio RTCP).  The id is read back by idOf
// from payload[1..4], where the generator put it.  A fifth field of twelve bytes replaces the header on the
// RTCP channels (an RTCP packet starts with V/P/RC, e.g. 0x85 for five report blocks).
func MakeRaw(id int64, ch int64, payload []byte, hdr []byte) *rtp.Packet {
	d := make([]byte, 12+len(payload))
	d[0] = 0x80
	d[1] = 96
	if ch == int64(rtp.ChannelAudio) {
		d[1] = 8
	}
	d[2], d[3] = byte(id>>8), byte(id)
	if len(hdr) == 12 && ch != int64(rtp.ChannelVideo) && ch != int64(rtp.ChannelAudio) {
		copy(d, hdr) // RTCP channels: the first twelve bytes are not an RTP header; the case chooses them
	}
	copy(d[12:], payload)
	pk := &rtp.Packet{Channel: byte(ch), Data: d}
	if ch == int64(rtp.ChannelVideo) || ch == int64(rtp.ChannelAudio) {
		if err := pk.Header.Unmarshal(pk.Data); err != nil {
			panic(err)
		}
	}
	if len(payload) < 5 || idOf(pk) != id {
		panic("lts: raw packet does not carry its id in payload[1..4]")
	}
	return pk
}

// packetOf builds the packet of one case entry: (id kind) or (id _ channel payload)
func packetOf(pv Val) *rtp.Packet {
	if len(pv.List()) >= 4 {
		return MakeRaw(pv.At(0).Int(), pv.At(2).Int(), pv.At(3).Bytes(), pv.At(4).Bytes())
	}
	return MakePacket(pv.At(0).Int(), pv.At(1).Int())
}

// recording consumer
type rec struct {
	mu      sync.Mutex
	panicAt int
	// what Close does: 0 returns, 1 panics, 2 never returns (parks on gate; released when the case is over)
	closeMode int
	parked    bool
	gate      chan struct{}
	out    []int64
	hashes []uint32
	closes int
}

func (r *rec) Consume(p media.Pack) {
	var id int64
	var data []byte
	if pk, ok := p.(*rtp.Packet); ok {
		id, data = idOf(pk), pk.Data
	} else {
		tg := p.(*flv.Tag)
		id, data = tagID(tg), append([]byte{tg.TagType}, tg.Data...)
		if chainMode { // the muxer's configuration tags carry no id: -1 metadata, -2 video, -3 audio sequence header
			switch {
			case tg.TagType == flv.TagTypeAmf0Data:
				id = -1
			case tg.TagType == flv.TagTypeVideo && len(tg.Data) > 1 && tg.Data[1] == 0:
				id = -2
			case tg.TagType == flv.TagTypeAudio && len(tg.Data) > 1 && tg.Data[1] == 0:
				id = -3
			}
		}
	}
	r.mu.Lock()
	r.out = append(r.out, id)
	h := uint32(2166136261)
	for _, b := range data {
		h = (h ^ uint32(b)) * 16777619
	}
	r.hashes = append(r.hashes, h)
	boom := r.panicAt > 0 && len(r.out) == r.panicAt
	r.mu.Unlock()
	if boom {
		panic("lts: consumer panics as scripted")
	}
}
func (r *rec) Close() error {
	r.mu.Lock()
	r.closes++
	mode := r.closeMode
	if mode == 2 {
		r.parked = true
	}
	r.mu.Unlock()
	switch mode {
	case 1:
		panic("lts: Close panics as scripted")
	case 2:
		<-r.gate
	}
	return nil
}

// MakePacket builds an RTP packet whose payload classifies as the given kind and carries id.
// kind: 0 audio channel, 1 video non-key, 2 IDR, 3 SPS, 4 PPS.
// h265 selects the HEVC payload layout (2-byte NAL header) for MakePacket; set per case by Run.
var h265 bool

// fua makes H.264 video packets FU-A fragments of IDR units (kind 2 = start fragment; kind 1 = middle
// fragment, or the end fragment when id%3 == 0), so that the RTP demuxer reassembles units from the very
// packet objects that sit in the consumers' queues and in the GOP cache.
var fua bool

func MakePacket(id int64, kind int64) *rtp.Packet {
	if h265 {
		return makePacket265(id, kind)
	}
	if fua && (kind == 1 || kind == 2) {
		fuh := byte(0x05) // middle fragment of a type-5 unit
		if kind == 2 {
			fuh = 0x85 // start
		} else if id%3 == 0 {
			fuh = 0x45 // end
		}
		d := make([]byte, 12+2+4+2)
		d[0] = 0x80
		d[1] = 96
		d[2], d[3] = byte(id>>8), byte(id)
		d[12], d[13] = 0x7c, fuh
		d[14], d[15], d[16], d[17] = byte(id>>24), byte(id>>16), byte(id>>8), byte(id)
		pk := &rtp.Packet{Channel: byte(rtp.ChannelVideo), Data: d}
		if err := pk.Header.Unmarshal(pk.Data); err != nil {
			panic(err)
		}
		return pk
	}
	nal := byte(0x41)
	ch := byte(rtp.ChannelVideo)
	switch kind {
	case 0:
		ch = byte(rtp.ChannelAudio)
		nal = 0x00
	case 2:
		nal = 0x65
	case 3:
		nal = 0x67
	case 4:
		nal = 0x68
	}
	// 12-byte RTP header (V=2), NAL header at 12 (what getPalyloadType reads), id at 13..16
	d := make([]byte, 12+1+4+3)
	d[0] = 0x80
	d[1] = 96
	d[2], d[3] = byte(id>>8), byte(id)
	d[12] = nal
	d[13], d[14], d[15], d[16] = byte(id>>24), byte(id>>16), byte(id>>8), byte(id)
	pk := &rtp.Packet{Channel: ch, Data: d}
	if err := pk.Header.Unmarshal(pk.Data); err != nil {
		panic(err)
	}
	return pk
}

// MakeTag builds an FLV tag that the FLV cache classifies as the given kind and that carries id.
// kind: 1 media (inter video frame), 2 key video frame, 3 video sequence header, 4 AAC sequence header, 5 onMetaData.
func MakeTag(id int64, kind int64) *flv.Tag {
	idb := []byte{byte(id >> 24), byte(id >> 16), byte(id >> 8), byte(id)}
	t := &flv.Tag{Timestamp: uint32(1000 + id*40)}
	switch kind {
	case 5:
		t.TagType = flv.TagTypeAmf0Data
		t.Data = append(append([]byte{2, 0, 10}, []byte("onMetaData")...), idb...)
	case 3:
		t.TagType = flv.TagTypeVideo
		t.Data = append([]byte{0x17, 0}, idb...)
	case 4:
		t.TagType = flv.TagTypeAudio
		t.Data = append([]byte{0xAF, 0}, idb...)
	case 2:
		t.TagType = flv.TagTypeVideo
		t.Data = append([]byte{0x17, 1}, idb...)
	default:
		t.TagType = flv.TagTypeVideo
		t.Data = append([]byte{0x27, 1}, idb...)
	}
	t.DataSize = uint32(len(t.Data))
	return t
}

func tagID(t *flv.Tag) int64 {
	d := t.Data[len(t.Data)-4:]
	return int64(d[0])<<24 | int64(d[1])<<16 | int64(d[2])<<8 | int64(d[3])
}

// kind: 0 audio channel, 1 TRAIL_R, 2 IDR_W_RADL, 3 SPS, 4 PPS, 5 VPS
func makePacket265(id int64, kind int64) *rtp.Packet {
	ch := byte(rtp.ChannelVideo)
	t := byte(1)
	switch kind {
	case 0:
		ch = byte(rtp.ChannelAudio)
	case 2:
		t = 19
	case 3:
		t = 33
	case 4:
		t = 34
	case 5:
		t = 32
	}
	// RTP header, 2-byte NAL header at 12..13, id at 13..16 would collide: keep the id where idOf reads it (13..16)
	// by using a 1-byte shift: layout 12: nal0, 13..16: id is not possible with a 2-byte header, so the second
	// header byte is the first id byte for HEVC ids < 2^24 (0) ... use layout nal0, nal1=id>>24 (always 0 or 1 here)
	d := make([]byte, 12+1+4+3)
	d[0] = 0x80
	d[1] = 96
	d[2], d[3] = byte(id>>8), byte(id)
	d[12] = t << 1
	d[13], d[14], d[15], d[16] = byte(id>>24), byte(id>>16), byte(id>>8), byte(id)
	pk := &rtp.Packet{Channel: ch, Data: d}
	if err := pk.Header.Unmarshal(pk.Data); err != nil {
		panic(err)
	}
	return pk
}

func idOf(pk *rtp.Packet) int64 {
	d := pk.Data
	if fua && !h265 && pk.Channel == byte(rtp.ChannelVideo) && d[12]&0x1f == 28 {
		return int64(d[14])<<24 | int64(d[15])<<16 | int64(d[16])<<8 | int64(d[17])
	}
	return int64(d[13])<<24 | int64(d[14])<<16 | int64(d[15])<<8 | int64(d[16])
}

var quiet sync.Once

// Run executes one case: (variant ncons maxq gopon pkts stoppers sched) and returns the projected state.
func Run(c Val) Val {
	quiet.Do(func() { xlog.ReplaceGlobal(xlog.New(xlog.NewNopCore())) })
	n := int(c.At(1).Int())
	gop := c.At(3).Bool()
	flvMode := c.At(8).Bool() // publish FLV tags through WriteFlvTag to FLV consumers instead of RTP packets
	config.VerifSetCacheGop(gop)
	maxq := int(c.At(2).Int())
	if maxq == 1000 {
		maxq = 0 // the built-in limit
	}
	media.VerifSetMaxQLen(maxq)
	h265 = c.At(10).Bool()
	fua = c.At(11).Bool() && !h265 && !c.At(8).Bool()
	ctl := sched.New()
	ctl.Skip["sweep.zero"] = 1 // close() sweeps the (empty) FLV consumers first; the model's K2 is the RTP sweep
	sdpText := sdpH264
	if h265 {
		sdpText = sdpH265
	}
	chain := c.At(13).List()
	chainMode = len(chain) > 0 && !flvMode
	isFlv := func(i int) bool { return flvMode || (chainMode && i < len(chain) && chain[i].Bool()) }
	if chainMode && h265 {
		sdpText = sdpH265Sprop
	}
	if c.At(12).Bool() && !chainMode { // G.711 audio instead of AAC
		sdpText = sdpH264PCMA
		if h265 {
			sdpText = sdpH265PCMA
		}
	}
	s := media.NewStream("/lts/"+strconv.Itoa(n), sdpText)
	ctl.Settle()
	recs := make([]*rec, n)
	cids := make([]media.CID, n)
	known := make([]bool, n)
	var cmu sync.Mutex
	byCid := map[uint32]int{}
	for i := range recs {
		recs[i] = &rec{panicAt: int(c.At(7).At(i).Int()), closeMode: int(c.At(14).At(i).Int()), gate: make(chan struct{})}
	}
	ctl.Role = func(point string, id uint32) string {
		if point == "consume.pop" || point == "consume.got" || point == "remove.loaded" {
			cmu.Lock()
			i, ok := byCid[id]
			cmu.Unlock()
			if ok {
				return "cons:" + strconv.Itoa(i)
			}
		}
		return ""
	}
	allowed := map[string]string{"pub": " h.start h.pub write.checked write.cached flvwrite.checked flvwrite.cached ", "clo": " h.start close.status sweep.zero ",
		"att": " h.start attach.snapped attach.added ", "sto": " h.start remove.loaded ", "con": " consume.pop consume.got remove.loaded "}
	ctl.Allow = func(thread, point string) bool {
		return strings.Contains(allowed[thread[:3]], " "+point+" ")
	}
	pkts := c.At(4).List()
	kindOf := map[int64]int64{}
	rawOf := map[int64]Val{}
	for _, pv := range pkts {
		kindOf[pv.At(0).Int()] = pv.At(1).Int()
		if len(pv.List()) >= 4 {
			rawOf[pv.At(0).Int()] = pv
		}
	}
	remaining := len(pkts)
	ctl.Go("pub", func() {
		for _, pv := range pkts {
			if flvMode {
				s.WriteFlvTag(MakeTag(pv.At(0).Int(), pv.At(1).Int()))
			} else {
				s.WriteRtpPacket(packetOf(pv))
			}
			remaining--
			ctl.Here("h.pub")
		}
	})
	closeAs := c.At(9).Int() // 0/1: Stream.Close(); 2: replaced by a new publisher; 3: idle close
	ctl.Go("close", func() {
		switch closeAs {
		case 2:
			media.VerifCloseAs(s, media.StreamReplaced)
		case 3:
			media.VerifCloseAs(s, media.StreamNoConsumer)
		default:
			s.Close()
		}
	})
	for i := 0; i < n; i++ {
		i := i
		ctl.Go("att:"+strconv.Itoa(i), func() {
			// the consumer id is fixed inside startConsume; learn it at attach.snapped via AtID
			pt := media.RTPPacket
			if isFlv(i) {
				pt = media.FLVPacket
			}
			cid := s.StartConsume(recs[i], pt, "lts")
			cmu.Lock()
			cids[i], known[i] = cid, true
			byCid[uint32(cid)] = i
			cmu.Unlock()
		})
		if c.At(5).At(i).Bool() {
			ctl.Go("stop:"+strconv.Itoa(i), func() {
				cmu.Lock()
				cid, ok := cids[i], known[i]
				cmu.Unlock()
				if ok {
					s.StopConsume(cid)
				}
			})
		}
	}
	learn := func(i int) {
		// an attacher parked at attach.snapped / attach.added carries its consumer id
		name := "att:" + strconv.Itoa(i)
		st := ctl.Status(name)
		if st == "attach.snapped" || st == "attach.added" {
			cmu.Lock()
			cids[i], known[i] = media.CID(ctl.AtID(name)), true
			byCid[ctl.AtID(name)] = i
			cmu.Unlock()
		}
	}
	// the publisher's first step in the model is the status check: the goroutine is parked at h.start
	for _, tv := range c.At(6).List() {
		k := int(tv.At(1).Int())
		switch tv.At(0).Int() {
		case 0:
			ctl.Step("pub")
		case 1:
			ctl.Step("close")
		case 2:
			ctl.Step("att:" + strconv.Itoa(k))
			if k < n {
				learn(k)
			}
		case 3:
			// StopConsume needs the id StartConsume returned: a stop begins only after the attach returned
			if ctl.Status("att:"+strconv.Itoa(k)) == "done" {
				ctl.Step("stop:" + strconv.Itoa(k))
			}
		default:
			ctl.Step("cons:" + strconv.Itoa(k))
		}
		for i := 0; i < n; i++ {
			learn(i)
			if known[i] {
				media.VerifApplyMaxQLen(s, cids[i])
			}
		}
		if os.Getenv("LTS_TRACE") != "" {
			fmt.Fprintf(os.Stderr, "after %v: pub=%s close=%s", tv, ctl.Status("pub"), ctl.Status("close"))
			for i := 0; i < n; i++ {
				fmt.Fprintf(os.Stderr, " att%d=%s cons%d=%s", i, ctl.Status("att:"+strconv.Itoa(i)), i, ctl.Status("cons:"+strconv.Itoa(i)))
			}
			fmt.Fprintln(os.Stderr)
		}
	}
	// project the state
	code := func(st string, m map[string]int64) int64 {
		if v, ok := m[st]; ok {
			return v
		}
		panic(fmt.Sprintf("lts: unexpected thread status %q", st))
	}
	consV := make([]Val, n)
	for i := 0; i < n; i++ {
		r := recs[i]
		r.mu.Lock()
		outs := make([]Val, len(r.out))
		intact := true
		for j, id := range r.out {
			outs[j] = I(id)
			// byte identity: the delivered packet hashes like the packet that was published under that id
			var odata []byte
			if chainMode && isFlv(i) {
				continue // converted tags: their content is C08's subject
			}
			if rv, ok := rawOf[id]; ok && !flvMode {
				odata = packetOf(rv).Data
			} else if !flvMode {
				odata = MakePacket(id, kindOf[id]).Data
			}
			if flvMode {
				tg := MakeTag(id, kindOf[id])
				odata = append([]byte{tg.TagType}, tg.Data...)
			}
			h := uint32(2166136261)
			for _, b := range odata {
				h = (h ^ uint32(b)) * 16777619
			}
			if h != r.hashes[j] {
				intact = false
			}
		}
		closes := r.closes
		parked := r.parked
		r.mu.Unlock()
		cst := ctl.Status("cons:" + strconv.Itoa(i))
		if parked && cst == "blocked" {
			cst = "done" // parked for ever inside Consumer.Close: no further step; reported in a field of its own
		}
		if cst == "" && ctl.Status("att:"+strconv.Itoa(i)) == "done" {
			cst = "done" // spawned and ran to completion without reaching a point
		}
		pc := code(cst, map[string]int64{"": 0, "consume.pop": 1, "consume.got": 2, "blocked": 3, "remove.loaded": 4, "done": 5})
		reg, ql, disc := false, int64(-1), false
		cmu.Lock()
		cid, ok := cids[i], known[i]
		cmu.Unlock()
		if ok {
			if q := media.VerifQueueLen(s, cid); q >= 0 {
				reg, ql, disc = true, int64(q), media.VerifDiscarding(s, cid)
			}
		}
		att := code(ctl.Status("att:"+strconv.Itoa(i)), map[string]int64{"h.start": 0, "blocked": 3, "attach.snapped": 1, "attach.added": 2, "done": 5})
		stp := int64(5)
		if c.At(5).At(i).Bool() {
			stp = code(ctl.Status("stop:"+strconv.Itoa(i)), map[string]int64{"h.start": 0, "remove.loaded": 1, "done": 5})
		}
		consV[i] = L(L(outs...), I(int64(closes)), I(pc), Bo(reg), I(ql), Bo(disc), I(att), I(stp), Bo(intact))
		if len(c.At(14).List()) > 0 { // fault cases: tenth field "parked inside Consumer.Close"
			consV[i] = L(append(consV[i].List(), Bo(parked))...)
		}
	}
	rc, fc := media.VerifCounts(s)
	if flvMode {
		rc = fc
	}
	pp := code(ctl.Status("pub"), map[string]int64{"h.start": 0, "h.pub": 0, "done": 0, "write.checked": 1, "write.cached": 2, "flvwrite.checked": 1, "flvwrite.cached": 2, "blocked": 3})
	kp := code(ctl.Status("close"), map[string]int64{"h.start": 0, "close.status": 1, "sweep.zero": 2, "done": 5})
	todo := remaining
	out := L(L(consV...), I(int64(rc)), Bo(media.VerifStatus(s) == media.StreamOK), I(pp), I(int64(todo)), I(kp))
	if chainMode {
		// two observations, one per side; a consumer of the other side is reported as never attached
		never := L(L(), I(0), I(0), Bo(false), I(-1), Bo(false), I(0), I(5), Bo(true))
		side := func(flvSide bool) []Val {
			v := make([]Val, n)
			for i := range v {
				if isFlv(i) == flvSide {
					v[i] = consV[i]
				} else {
					v[i] = never
				}
			}
			return v
		}
		ok := Bo(media.VerifStatus(s) == media.StreamOK)
		out = L(L(L(side(false)...), I(int64(rc)), ok, I(pp), I(int64(todo)), I(kp)),
			L(L(side(true)...), I(int64(fc)), ok, I(0), I(int64(todo)), I(kp)))
	}
	ctl.Finish()
	s.Close()
	for _, r := range recs { // the case is over: let the goroutines parked inside Close go
		close(r.gate)
	}
	// let the goroutines of this stream run to their end before the next case installs its controller:
	// they carry the same consumer ids and would be taken for the next case's threads
	ctl.Settle()
	return out
}
