// Package transports drives the real transport adapters above media.Stream for the
// properties C01 (delivery) and C03 (release): RTSP over TCP and UDP through
// rtsp.CreateAcceptHandler on a loopback listener, ws-rtsp, WSP (control + data channel),
// HTTP-FLV and WebSocket-FLV through the production HTTP handler (service.VerifNewHTTP) on an
// httptest server with a gorilla client.  A scripted packet list is published into a registered
// media.Stream while 1-3 clients of mixed transports attach at scripted positions, some stop
// mid-stream, and the stream is closed at the end; per client the harness records what it
// received and how its connection ended, and after every event the consumer count and the
// per-protocol connection counters.
package transports

import (
	"bufio"
	"bytes"
	"context"
	"fmt"
	"io"
	"net"
	"net/http"
	"net/http/httptest"
	"strconv"
	"strings"
	"sync"
	"time"

	. "vh/lib"
	"vh/sched"

	"github.com/cnotch/ipchub/av/format/flv"
	"github.com/cnotch/ipchub/av/format/rtp"
	"github.com/cnotch/ipchub/media"
	"github.com/cnotch/ipchub/service"
	"github.com/cnotch/ipchub/service/rtsp"
	"github.com/cnotch/ipchub/stats"
	"github.com/cnotch/xlog"
	"github.com/gorilla/websocket"
)

const streamPath = "/tr/a"

const sdpText = "v=0\r\no=- 0 0 IN IP4 127.0.0.1\r\ns=t\r\nc=IN IP4 127.0.0.1\r\nt=0 0\r\n" +
	"m=video 0 RTP/AVP 96\r\na=rtpmap:96 H264/90000\r\n" +
	"a=fmtp:96 packetization-mode=1; sprop-parameter-sets=Z2QAH6zZQFAFuhAAAAMAEAAAAwPI8YMZYA==,aO+8sA==; profile-level-id=64001F\r\n" +
	"a=control:streamid=0\r\n" +
	"m=audio 0 RTP/AVP 97\r\na=rtpmap:97 MPEG4-GENERIC/44100/2\r\n" +
	"a=fmtp:97 profile-level-id=1;mode=AAC-hbr;sizelength=13;indexlength=3;indexdeltalength=3; config=121056E500\r\n" +
	"a=control:streamid=1\r\n"

var (
	once    sync.Once
	rtspL   net.Listener
	httpSrv *httptest.Server
	quiet   *sched.Ctl
)

func start() {
	once.Do(func() {
		xlog.ReplaceGlobal(xlog.New(xlog.NewNopCore()))
		l, err := net.Listen("tcp", "127.0.0.1:0")
		if err != nil {
			panic(err)
		}
		rtspL = l
		accept := rtsp.CreateAcceptHandler()
		go func() {
			for {
				c, err := l.Accept()
				if err != nil {
					return
				}
				accept(c)
			}
		}()
		h, _ := service.VerifNewHTTP()
		httpSrv = httptest.NewServer(h)
	})
	quiet = sched.New() // used for Settle only: no roles, nothing parks
}

// settle: every goroutine of the process is blocked (the delivery pipeline has drained)
func settle() { quiet.Settle() }

func waitUntil(d time.Duration, f func() bool) bool {
	deadline := time.Now().Add(d)
	for {
		if f() {
			return true
		}
		if time.Now().After(deadline) {
			return false
		}
		time.Sleep(200 * time.Microsecond)
	}
}

// ---------------------------------------------------------------- what a client saw
type msg struct {
	a, b int64 // RTP: channel, 0; FLV: tag type, timestamp
	data []byte
}

type sinkT struct {
	mu    sync.Mutex
	msgs  []msg
	ended bool
}

func (s *sinkT) add(a, b int64, d []byte) {
	s.mu.Lock()
	s.msgs = append(s.msgs, msg{a, b, append([]byte(nil), d...)})
	s.mu.Unlock()
}
func (s *sinkT) count() int { s.mu.Lock(); defer s.mu.Unlock(); return len(s.msgs) }
func (s *sinkT) end()       { s.mu.Lock(); s.ended = true; s.mu.Unlock() }
func (s *sinkT) isEnded() bool {
	s.mu.Lock()
	defer s.mu.Unlock()
	return s.ended
}
func (s *sinkT) val(flvKind bool) Val {
	s.mu.Lock()
	defer s.mu.Unlock()
	out := make([]Val, 0, len(s.msgs))
	for _, m := range s.msgs {
		if flvKind {
			out = append(out, L(I(m.a), I(m.b), B(m.data)))
		} else {
			out = append(out, L(I(m.a), B(m.data)))
		}
	}
	return L(out...)
}

// in-process reference consumer for the FLV transports
type refConsumer struct{ sinkT }

func (r *refConsumer) Consume(p media.Pack) {
	t := p.(*flv.Tag)
	r.add(int64(t.TagType), int64(t.Timestamp), t.Data)
}
func (r *refConsumer) Close() error { r.end(); return nil }

// ---------------------------------------------------------------- clients
type client struct {
	kind  int64
	chmap [4]int64
	sinkT
	ref    *refConsumer
	refCID media.CID

	conn        net.Conn // rtsp/tcp, rtsp/udp control connection
	resps       chan string
	udp         [4]*net.UDPConn
	ws          *websocket.Conn // ws-rtsp, wsp control, ws-flv
	wsData      *websocket.Conn // wsp data channel
	wmu         sync.Mutex
	chanID      string
	cseq        int
	cancel      context.CancelFunc // http-flv
	stopped     bool
	stream      *media.Stream // the stream it attached to
	noCountWait bool          // a further member of a running multicast proxy adds no consumer to the stream
	listedID    uint32        // the id Stream.Info(true) lists for this client's consumer
	listed      bool
	faulty      bool // fault injection (C03 adapter-faults): the client drops its connection ...
	abortAfter  int  // ... after this many handshake requests have been answered
	genEnd      int  // packets published when its stream was replaced (-1: still current)
	nonce       []byte
	attached    bool
}

func (c *client) isFLV() bool { return c.kind == 4 || c.kind == 5 }

// expected number of messages for a list of delivered packets (subscription filter only)
func (c *client) expect(delivered []Val, pkts []Val) int {
	n := 0
	for _, d := range delivered {
		ch := pkts[d.Int()].At(0).Int()
		if c.chmap[ch] >= 0 {
			n++
		}
	}
	return n
}

func readRTSPResponse(br *bufio.Reader) (string, error) {
	var sb strings.Builder
	clen := 0
	for {
		line, err := br.ReadString('\n')
		if err != nil {
			return "", err
		}
		sb.WriteString(line)
		t := strings.TrimRight(line, "\r\n")
		if t == "" {
			break
		}
		if i := strings.IndexByte(t, ':'); i > 0 && strings.EqualFold(strings.TrimSpace(t[:i]), "content-length") {
			clen, _ = strconv.Atoi(strings.TrimSpace(t[i+1:]))
		}
	}
	if clen > 0 {
		b := make([]byte, clen)
		if _, err := io.ReadFull(br, b); err != nil {
			return "", err
		}
		sb.Write(b)
	}
	return sb.String(), nil
}

// reader of an interleaved RTSP connection: frames are recorded, responses handed to the requester
func (c *client) pumpTCP() {
	br := bufio.NewReaderSize(c.conn, 128*1024)
	go func() {
		defer func() { c.end(); close(c.resps) }()
		for {
			b, err := br.Peek(1)
			if err != nil {
				return
			}
			if b[0] == '$' {
				var h [4]byte
				if _, err := io.ReadFull(br, h[:]); err != nil {
					return
				}
				d := make([]byte, int(h[2])<<8|int(h[3]))
				if _, err := io.ReadFull(br, d); err != nil {
					return
				}
				c.add(int64(h[1]), 0, d)
				continue
			}
			r, err := readRTSPResponse(br)
			if err != nil {
				return
			}
			c.resps <- r
		}
	}()
}

func (c *client) request(text string) (string, bool) {
	c.cseq++
	text = strings.Replace(text, "CSeq: #", "CSeq: "+strconv.Itoa(c.cseq), 1)
	switch c.kind {
	case 0, 1, 6:
		if _, err := c.conn.Write([]byte(text)); err != nil {
			return "", false
		}
	case 2:
		c.wmu.Lock()
		err := c.ws.WriteMessage(websocket.BinaryMessage, []byte(text))
		c.wmu.Unlock()
		if err != nil {
			return "", false
		}
	case 3:
		w := fmt.Sprintf("WSP/1.1 WRAP\r\nchannel: %s\r\nseq: %d\r\n\r\n%s", c.chanID, c.cseq, text)
		c.wmu.Lock()
		err := c.ws.WriteMessage(websocket.TextMessage, []byte(w))
		c.wmu.Unlock()
		if err != nil {
			return "", false
		}
	}
	select {
	case r, ok := <-c.resps:
		if c.kind == 3 && ok {
			if i := strings.Index(r, "\r\n\r\n"); i >= 0 {
				r = r[i+4:]
			}
		}
		return r, ok
	case <-time.After(5 * time.Second):
		return "", false
	}
}

func ok200(r string, ok bool) bool { return ok && strings.HasPrefix(r, "RTSP/1.0 200") }

func (c *client) oneFrame(m []byte) {
	if len(m) == 0 {
		return // an unsubscribed packet produces an empty message (see design/C01.md)
	}
	if len(m) >= 4 && m[0] == '$' && int(m[2])<<8|int(m[3]) == len(m)-4 {
		c.add(int64(m[1]), 0, m[4:])
		return
	}
	c.add(-1, 0, m) // not exactly one frame
}

func wsURL(path string) string { return "ws" + strings.TrimPrefix(httpSrv.URL, "http") + path }

func dialWS(path, proto string) (*websocket.Conn, error) {
	d := websocket.Dialer{HandshakeTimeout: 5 * time.Second}
	if proto != "" {
		d.Subprotocols = []string{proto}
	}
	ws, _, err := d.Dial(wsURL(path), nil)
	return ws, err
}

func (c *client) setupText(video bool, transport string) string {
	ctl := "streamid=1"
	if video {
		ctl = "streamid=0"
	}
	return fmt.Sprintf("SETUP rtsp://127.0.0.1:554%s/%s RTSP/1.0\r\nCSeq: #\r\nTransport: %s\r\n\r\n", streamPath, ctl, transport)
}

func interleaved(a, b int64) string {
	if b >= 0 {
		return fmt.Sprintf("interleaved=%d-%d", a, b)
	}
	return fmt.Sprintf("interleaved=%d", a)
}

var errAborted = fmt.Errorf("aborted by the fault script")

// attach performs the transport's whole handshake; afterwards the consumer is registered on the stream
func (c *client) attach(stream *media.Stream) error {
	before := stream.ConsumerCount()
	c.resps = make(chan string, 16)
	describe := fmt.Sprintf("DESCRIBE rtsp://127.0.0.1:554%s RTSP/1.0\r\nCSeq: #\r\n\r\n", streamPath)
	play := fmt.Sprintf("PLAY rtsp://127.0.0.1:554%s RTSP/1.0\r\nCSeq: #\r\n\r\n", streamPath)
	var reqs []string
	switch c.kind {
	case 0, 1:
		nc, err := net.Dial("tcp", rtspL.Addr().String())
		if err != nil {
			return err
		}
		c.conn = nc
		c.pumpTCP()
		reqs = append(reqs, describe)
		for _, v := range []int{0, 2} {
			if c.chmap[v] < 0 {
				continue
			}
			if c.kind == 0 {
				reqs = append(reqs, c.setupText(v == 0, "RTP/AVP/TCP;unicast;"+interleaved(c.chmap[v], c.chmap[v+1])))
				continue
			}
			ports := []string{}
			for k := v; k < v+2; k++ {
				if c.chmap[k] < 0 {
					break
				}
				u, err := net.ListenUDP("udp", &net.UDPAddr{IP: net.IPv4(127, 0, 0, 1)})
				if err != nil {
					return err
				}
				c.udp[k] = u
				ports = append(ports, strconv.Itoa(u.LocalAddr().(*net.UDPAddr).Port))
				go func(k int, u *net.UDPConn) {
					buf := make([]byte, 65536)
					for {
						n, _, err := u.ReadFrom(buf)
						if err != nil {
							return
						}
						c.add(int64(k), 0, buf[:n])
					}
				}(k, u)
			}
			reqs = append(reqs, c.setupText(v == 0, "RTP/AVP;unicast;client_port="+strings.Join(ports, "-")))
		}
		reqs = append(reqs, play)
	case 6:
		// multicast: the SETUP answer names the group and the ports of the stream's multicast proxy
		nc, err := net.Dial("tcp", rtspL.Addr().String())
		if err != nil {
			return err
		}
		c.conn = nc
		c.pumpTCP()
		if resp, ok := c.request(describe); !ok200(resp, ok) {
			return fmt.Errorf("multicast: DESCRIBE refused")
		}
		for _, v := range []int{0, 2} {
			if c.chmap[v] < 0 {
				continue
			}
			resp, ok := c.request(c.setupText(v == 0, "RTP/AVP;multicast"))
			if !ok200(resp, ok) {
				return fmt.Errorf("multicast: SETUP refused: %.80q", resp)
			}
			dest, ports := "", ""
			for _, f := range strings.FieldsFunc(resp, func(r rune) bool { return r == ';' || r == '\r' || r == '\n' }) {
				f = strings.TrimSpace(f)
				if strings.HasPrefix(f, "destination=") {
					dest = f[12:]
				} else if strings.HasPrefix(f, "port=") {
					ports = f[5:]
				}
			}
			pp := strings.Split(ports, "-")
			for k := v; k < v+2; k++ {
				if c.chmap[k] < 0 || k-v >= len(pp) {
					continue
				}
				port, _ := strconv.Atoi(pp[k-v])
				u, err := net.ListenMulticastUDP("udp4", nil, &net.UDPAddr{IP: net.ParseIP(dest), Port: port})
				if err != nil {
					return fmt.Errorf("multicast: join %s:%d: %v", dest, port, err)
				}
				c.udp[k] = u
				go func(k int, u *net.UDPConn) {
					buf := make([]byte, 65536)
					for {
						n, _, err := u.ReadFrom(buf)
						if err != nil {
							return
						}
						// other processes on this machine use the same groups and ports: only datagrams
						// carrying this case's SSRC are ours
						d := buf[:n]
						off := 8
						if k == 1 || k == 3 {
							off = 4
						}
						if n >= off+4 && bytes.Equal(d[off:off+4], c.nonce) {
							c.add(int64(k), 0, d)
						}
					}
				}(k, u)
			}
		}
		reqs = append(reqs, play)
	case 2:
		ws, err := dialWS("/streams"+streamPath, "rtsp")
		if err != nil {
			return err
		}
		c.ws = ws
		go func() {
			defer func() { c.end(); close(c.resps) }()
			for {
				_, m, err := ws.ReadMessage()
				if err != nil {
					return
				}
				if len(m) > 0 && m[0] != '$' && strings.HasPrefix(string(m), "RTSP/") {
					select {
					case c.resps <- string(m):
					default:
						c.add(-2, 0, m) // a response nobody asked for
					}
					continue
				}
				c.oneFrame(m)
			}
		}()
		reqs = append(reqs, describe)
		for _, v := range []int{0, 2} {
			if c.chmap[v] >= 0 {
				reqs = append(reqs, c.setupText(v == 0, "RTP/AVP/TCP;unicast;"+interleaved(c.chmap[v], c.chmap[v+1])))
			}
		}
		reqs = append(reqs, play)
	case 3:
		ws, err := dialWS("/streams"+streamPath, "control")
		if err != nil {
			return err
		}
		c.ws = ws
		if err := ws.WriteMessage(websocket.TextMessage, []byte("WSP/1.1 INIT\r\nproto: rtsp\r\nhost: 127.0.0.1\r\nport: 554\r\nseq: 1\r\n\r\n")); err != nil {
			return err
		}
		_, m, err := ws.ReadMessage()
		if err != nil {
			return err
		}
		for _, l := range strings.Split(string(m), "\r\n") {
			if strings.HasPrefix(strings.ToLower(l), "channel:") {
				c.chanID = strings.TrimSpace(l[8:])
			}
		}
		if !strings.HasPrefix(string(m), "WSP/1.1 200") || c.chanID == "" {
			return fmt.Errorf("wsp INIT refused")
		}
		go func() {
			defer func() { c.end(); close(c.resps) }()
			for {
				_, m, err := ws.ReadMessage()
				if err != nil {
					return
				}
				c.resps <- string(m)
			}
		}()
		settle() // the session is registered after the INIT reply is written
		dws, err := dialWS("/streams"+streamPath, "data")
		if err != nil {
			return err
		}
		c.wsData = dws
		if err := dws.WriteMessage(websocket.TextMessage, []byte("WSP/1.1 JOIN\r\nchannel: "+c.chanID+"\r\nseq: 1\r\n\r\n")); err != nil {
			return err
		}
		if _, jm, err := dws.ReadMessage(); err != nil || !strings.HasPrefix(string(jm), "WSP/1.1 200") {
			return fmt.Errorf("wsp JOIN refused")
		}
		settle() // setDataChannel runs after the JOIN reply is written
		go func() {
			for {
				_, m, err := dws.ReadMessage()
				if err != nil {
					return
				}
				c.oneFrame(m)
			}
		}()
		reqs = append(reqs, describe)
		for _, v := range []int{0, 2} {
			if c.chmap[v] >= 0 {
				reqs = append(reqs, c.setupText(v == 0, "RTP/AVP/TCP;unicast;"+interleaved(c.chmap[v], c.chmap[v+1])))
			}
		}
		reqs = append(reqs, play)
	case 4:
		// net/http sends the response header with the first flush, i.e. not before 4 KiB of FLV
		// data or the end of the handler: the GET runs in its own goroutine
		ctx, cancel := context.WithCancel(context.Background())
		c.cancel = cancel
		req, _ := http.NewRequestWithContext(ctx, "GET", httpSrv.URL+"/streams"+streamPath+".flv", nil)
		go func() {
			defer c.end()
			resp, err := (&http.Client{Transport: &http.Transport{DisableKeepAlives: true}}).Do(req)
			if err != nil {
				return
			}
			defer resp.Body.Close()
			if resp.StatusCode != 200 {
				c.add(-1, int64(resp.StatusCode), nil)
				return
			}
			c.readFLV(resp.Body)
		}()
	case 5:
		ws, err := dialWS("/streams"+streamPath+".flv", "")
		if err != nil {
			return err
		}
		c.ws = ws
		pr, pw := io.Pipe()
		go func() {
			for {
				_, m, err := ws.ReadMessage()
				if err != nil {
					pw.CloseWithError(io.EOF)
					return
				}
				pw.Write(m)
			}
		}()
		go c.readFLV(pr)
	}
	for idx, r := range reqs {
		if c.faulty && idx >= c.abortAfter {
			c.cleanup()
			return errAborted
		}
		if resp, ok := c.request(r); !ok200(resp, ok) {
			return fmt.Errorf("kind %d: request refused: %.40q -> %.60q", c.kind, r, resp)
		}
	}
	if c.noCountWait {
		return nil
	}
	if !waitUntil(3*time.Second, func() bool { return stream.ConsumerCount() == before+1 }) {
		return fmt.Errorf("kind %d: consumer not registered", c.kind)
	}
	return nil
}

func (c *client) readFLV(r io.Reader) {
	defer c.end()
	fr, err := flv.NewReader(r)
	if err != nil {
		return
	}
	for {
		t, err := fr.ReadFlvTag()
		if err != nil {
			return
		}
		c.add(int64(t.TagType), int64(t.Timestamp), t.Data)
	}
}

// stop: mode 0 = the protocol's own goodbye (TEARDOWN), 1 = the client drops its connection
func (c *client) stop(mode int64) {
	c.stopped = true
	teardown := fmt.Sprintf("TEARDOWN rtsp://127.0.0.1:554%s RTSP/1.0\r\nCSeq: #\r\n\r\n", streamPath)
	switch c.kind {
	case 0, 1, 6:
		if mode == 0 {
			c.request(teardown)
		} else {
			c.conn.Close()
		}
	case 2, 3:
		if mode == 0 {
			c.request(teardown)
		} else {
			c.ws.Close()
		}
	case 4:
		c.cancel()
	case 5:
		c.ws.Close()
	}
}

func (c *client) cleanup() {
	if c.conn != nil {
		c.conn.Close()
	}
	for _, u := range c.udp {
		if u != nil {
			u.Close()
		}
	}
	if c.ws != nil {
		c.ws.Close()
	}
	if c.wsData != nil {
		c.wsData.Close()
	}
	if c.cancel != nil {
		c.cancel()
	}
}

// mcastActive counts the multicast players that are attached and have not left
func mcastActive(clients []*client) int {
	n := 0
	for _, cl := range clients {
		if cl.kind == 6 && cl.attached && !cl.stopped && !cl.isEnded() {
			n++
		}
	}
	return n
}

func publishViaSession() (net.Conn, error) {
	nc, err := net.Dial("tcp", rtspL.Addr().String())
	if err != nil {
		return nil, err
	}
	br := bufio.NewReader(nc)
	u := "rtsp://127.0.0.1:554" + streamPath
	for _, r := range []string{
		fmt.Sprintf("ANNOUNCE %s RTSP/1.0\r\nCSeq: 1\r\nContent-Type: application/sdp\r\nContent-Length: %d\r\n\r\n%s", u, len(sdpText), sdpText),
		fmt.Sprintf("SETUP %s/streamid=0 RTSP/1.0\r\nCSeq: 2\r\nTransport: RTP/AVP/TCP;unicast;interleaved=0-1;mode=record\r\n\r\n", u),
		fmt.Sprintf("RECORD %s RTSP/1.0\r\nCSeq: 3\r\n\r\n", u),
	} {
		if _, err := nc.Write([]byte(r)); err != nil {
			return nc, err
		}
		nc.SetReadDeadline(time.Now().Add(5 * time.Second))
		resp, err := readRTSPResponse(br)
		if err != nil || !strings.HasPrefix(resp, "RTSP/1.0 200") {
			return nc, fmt.Errorf("publisher refused: %.60q", resp)
		}
	}
	nc.SetReadDeadline(time.Time{})
	return nc, nil
}

func listedIDs(st *media.Stream) map[uint32]bool {
	m := map[uint32]bool{}
	for _, ci := range st.Info(true).Consumptions {
		m[ci.ID] = true
	}
	return m
}

// the id that the consumer list shows now and did not show before
func newListedID(st *media.Stream, before map[uint32]bool) (uint32, bool) {
	for _, ci := range st.Info(true).Consumptions {
		if !before[ci.ID] {
			return ci.ID, true
		}
	}
	return 0, false
}

// ---------------------------------------------------------------- one case
// case = (refs packets clients events how)
//
//	packets = ((channel data) ..)   clients = ((kind (m0 m1 m2 m3) (delivered-index ..)) ..)
//	events = ((0 n) publish n | (1 i) attach | (2 i mode) stop | (3) end)   how: 1 Close, 2 replaced, 3 idle
//
// observation = ((client ..) (snapshot ..) note)
//
//	client = (received reference ended)   snapshot = (cc rtsp flv wsp (ended ..) media-cc)
func Run(c Val) Val {
	start()
	refs, pkts, cls, evs, how := c.At(0).Bool(), c.At(1).List(), c.At(2).List(), c.At(3).List(), c.At(4).Int()
	media.UnregistAll()
	settle()
	var stream *media.Stream
	needMcast := false
	for _, cv := range cls {
		if cv.At(0).Int() == 6 {
			needMcast = true
		}
	}
	if needMcast {
		// only a stream published by a RECORD session has a multicast proxy
		pub, err := publishViaSession()
		if pub != nil {
			defer pub.Close()
		}
		if err != nil {
			return L(S("!setup"), S(err.Error()))
		}
		stream = media.Get(streamPath)
	} else {
		stream = media.NewStream(streamPath, sdpText)
		media.Regist(stream)
	}
	if stream == nil {
		return L(S("!setup"), S("no stream"))
	}
	streams := []*media.Stream{stream}
	clients := make([]*client, len(cls))
	for i, cv := range cls {
		cl := &client{kind: cv.At(0).Int(), genEnd: -1}
		if len(pkts) > 0 && len(pkts[0].At(1).Bytes()) >= 12 {
			cl.nonce = pkts[0].At(1).Bytes()[8:12]
		}
		for k := 0; k < 4; k++ {
			cl.chmap[k] = cv.At(1).At(k).Int()
		}
		clients[i] = cl
	}
	defer func() {
		for _, cl := range clients {
			cl.cleanup()
		}
		media.UnregistAll()
		settle()
	}()
	settle()
	base := [3]int64{stats.RtspConns.GetSample().Active, stats.FlvConns.GetSample().Active, stats.WspConns.GetSample().Active}
	note := ""
	snaps := []Val{}
	snapshot := func() {
		ended := make([]Val, len(clients))
		for i, cl := range clients {
			ended[i] = Bo(cl.isEnded())
		}
		_, mcc := media.Count()
		total := 0
		gens := make([]Val, len(streams))
		for i, st := range streams {
			gens[i] = I(int64(st.ConsumerCount()))
			total += st.ConsumerCount()
		}
		snaps = append(snaps, L(I(int64(total)),
			I(stats.RtspConns.GetSample().Active-base[0]), I(stats.FlvConns.GetSample().Active-base[1]),
			I(stats.WspConns.GetSample().Active-base[2]), L(ended...), I(int64(mcc)), L(gens...)))
	}
	published := 0
	attachedAt := make([]int, len(clients))
	// everything published so far has reached every attached client
	drained := func(d time.Duration) {
		settle()
		for i, cl := range clients {
			if !cl.attached || cl.stopped || cl.isEnded() {
				continue
			}
			cl := cl
			if cl.isFLV() {
				if cl.kind == 4 || cl.ref == nil {
					continue // net/http buffers the body: the tags arrive when the handler returns
				}
				waitUntil(d, func() bool { return cl.count() >= cl.ref.count() })
				continue
			}
			// the client's delivered list is its replay followed by the packets published since it attached
			all := cls[i].At(2).List()
			replay := 0
			for replay < len(all) && int(all[replay].Int()) < attachedAt[i] {
				replay++
			}
			live := published
			if cl.genEnd >= 0 && cl.genEnd < live {
				live = cl.genEnd // its stream has lost its publisher
			}
			upto := replay + (live - attachedAt[i])
			if upto > len(all) {
				upto = len(all)
			}
			want := cl.expect(all[:upto], pkts)
			if cl.kind == 0 && cl.count() < want {
				// interleaved frames wait in the session's buffered.Conn until a write gets a flush token;
				// a keep-alive request makes the server flush (Session.response ends with conn.Flush)
				settle()
				cl.request(fmt.Sprintf("OPTIONS rtsp://127.0.0.1:554%s RTSP/1.0\r\nCSeq: #\r\n\r\n", streamPath))
			}
			if !waitUntil(d, func() bool { return cl.count() >= want }) && note == "" {
				note = fmt.Sprintf("client %d: %d of %d messages after %d packets", i, cl.count(), want, published)
			}
		}
		settle()
	}
	for _, e := range evs {
		switch e.At(0).Int() {
		case 0:
			for n := e.At(1).Int(); n > 0 && published < len(pkts); n-- {
				p := pkts[published]
				published++
				pk := &rtp.Packet{Channel: byte(p.At(0).Int()), Data: p.At(1).Bytes()}
				if pk.Channel == rtp.ChannelVideo || pk.Channel == rtp.ChannelAudio {
					if err := pk.Header.Unmarshal(pk.Data); err != nil {
						return L(S("!badcase"), S(err.Error()))
					}
				}
				stream.WriteRtpPacket(pk)
			}
			drained(3 * time.Second)
		case 1:
			i := int(e.At(1).Int())
			cl := clients[i]
			drained(3 * time.Second)
			attachedAt[i] = published
			if cl.kind == 6 && mcastActive(clients) > 0 {
				cl.noCountWait = true // a further member of the running multicast proxy adds no consumer to the stream
			}
			listedBefore := listedIDs(stream)
			if err := cl.attach(stream); err != nil {
				return L(S("!setup"), S(err.Error()))
			}
			cl.attached = true
			cl.listedID, cl.listed = newListedID(stream, listedBefore)
			if cl.noCountWait {
				if ma := stream.Multicastable(); ma != nil {
					waitUntil(time.Second, func() bool { m, _, _, _ := rtsp.VerifMulticastState(ma); return m == mcastActive(clients) })
				}
			}
			cl.stream = stream
			if refs && cl.isFLV() {
				cl.ref = &refConsumer{}
				cl.refCID = stream.StartConsume(cl.ref, media.FLVPacket, "verif-reference")
			}
			settle()
		case 2:
			i := int(e.At(1).Int())
			cl := clients[i]
			drained(3 * time.Second)
			before := cl.stream.ConsumerCount()
			if e.At(2).Int() == 2 {
				// administrative stop: StopConsume with exactly the id the server lists for this consumer
				// (Stream.Info(true): what the runtime API shows and service.onStopConsumer parses)
				cl.stopped = true
				if cl.listed {
					cl.stream.StopConsume(media.CID(cl.listedID))
				}
			} else {
				cl.stop(e.At(2).Int())
			}
			if cl.ref != nil {
				cl.stream.StopConsume(cl.refCID)
				before--
			}
			if cl.kind == 6 {
				for k, u := range cl.udp { // a player that has left no longer listens on the group
					if u != nil {
						u.Close()
						cl.udp[k] = nil
					}
				}
			}
			if cl.kind == 6 && mcastActive(clients) > 0 {
				// other members keep the proxy (and its one consumption) running
				waitUntil(3*time.Second, func() bool { return cl.isEnded() })
			} else {
				waitUntil(3*time.Second, func() bool { return cl.isEnded() && cl.stream.ConsumerCount() < before })
			}
			settle()
		case 4:
			// a new publisher registers the path: the previous stream is retired, alive while it has consumers
			drained(3 * time.Second)
			for _, cl := range clients {
				if cl.attached && cl.genEnd < 0 {
					cl.genEnd = published
				}
			}
			if needMcast {
				pub2, err := publishViaSession()
				if pub2 != nil {
					defer pub2.Close()
				}
				if err != nil {
					return L(S("!setup"), S(err.Error()))
				}
				stream = media.Get(streamPath)
				base[0]++ // the second publisher's own RTSP connection
			} else {
				stream = media.NewStream(streamPath, sdpText)
				media.Regist(stream)
			}
			streams = append(streams, stream)
			settle()
		default:
			drained(3 * time.Second)
			for _, old := range streams[:len(streams)-1] {
				old.Close()
			}
			switch how {
			case 2:
				media.VerifCloseAs(stream, media.StreamReplaced)
			case 3:
				media.VerifCloseAs(stream, media.StreamNoConsumer)
			default:
				stream.Close()
			}
			waitUntil(3*time.Second, func() bool {
				for _, cl := range clients {
					if !cl.isEnded() {
						return false
					}
				}
				return stats.RtspConns.GetSample().Active == base[0] && stats.FlvConns.GetSample().Active == base[1] &&
					stats.WspConns.GetSample().Active == base[2]
			})
			settle()
		}
		snapshot()
	}
	out := make([]Val, len(clients))
	for i, cl := range clients {
		ref := L()
		if cl.ref != nil {
			ref = cl.ref.val(true)
		}
		out[i] = L(cl.val(cl.isFLV()), ref, Bo(cl.isEnded()))
	}
	return L(L(out...), L(snaps...), S(note))
}
