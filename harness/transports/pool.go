package transports

// C01 "buffer independence": several viewers of one stream on scripted connections under the
// schedule controller.  One viewer's data write is parked inside the socket write — like a
// socket whose send buffer is full, the bytes are taken from the caller's slice only when the
// write proceeds — while packets are published and the other viewers' delivery goroutines (and,
// optionally, a control-channel request/response) run to completion, so that every pooled
// buffer of the adapters is taken and returned again.  Then the parked viewer is released.
// What every viewer received must still be exactly its own subscribed packets.

import (
	"fmt"
	"io"
	"net"
	"runtime"
	"strings"
	"sync"
	"sync/atomic"
	"time"

	. "vh/lib"
	"vh/sched"

	"github.com/cnotch/ipchub/av/format/rtp"
	"github.com/cnotch/ipchub/media"
	"github.com/cnotch/ipchub/network/websocket"
	"github.com/cnotch/ipchub/service/rtsp"
	"github.com/cnotch/ipchub/service/wsp"
	"github.com/cnotch/xlog"
)

type pconn struct {
	ctl    *sched.Ctl
	name   string
	proto  string // websocket sub-protocol ("" = plain TCP)
	in     chan []byte
	pend   []byte
	eom    bool // pws only: the last Read delivered the end of a message
	closed chan struct{}
	once   sync.Once
	mu     sync.Mutex
	writes [][]byte
	armed  int32 // 1: park before the bytes are taken; 2: also between the two halves of a message
}

type pAddr struct{}

func (pAddr) Network() string { return "tcp" }
func (pAddr) String() string  { return "127.0.0.1:50001" }

func (c *pconn) Read(p []byte) (int, error) {
	if len(c.pend) == 0 {
		select {
		case b := <-c.in:
			c.pend = b
		case <-c.closed:
			return 0, io.EOF
		}
	}
	n := copy(p, c.pend)
	c.pend = c.pend[n:]
	return n, nil
}

func (c *pconn) Write(p []byte) (int, error) {
	mode := atomic.LoadInt32(&c.armed)
	if mode != 0 {
		c.ctl.Here("sock.write:" + c.name) // blocked: nothing of p has been taken yet
	}
	half := len(p) / 2
	data := append([]byte(nil), p[:half]...)
	if mode == 2 {
		c.ctl.Here("sock.write2:" + c.name) // the first part is out, the rest still in the caller's buffer
	}
	data = append(data, p[half:]...)
	c.mu.Lock()
	c.writes = append(c.writes, data)
	c.mu.Unlock()
	return len(p), nil
}

func (c *pconn) take() [][]byte {
	c.mu.Lock()
	defer c.mu.Unlock()
	out := c.writes
	c.writes = nil
	return out
}
func (c *pconn) Close() error                       { c.once.Do(func() { close(c.closed) }); return nil }
func (c *pconn) LocalAddr() net.Addr                { return pAddr{} }
func (c *pconn) RemoteAddr() net.Addr               { return pAddr{} }
func (c *pconn) SetDeadline(t time.Time) error      { return nil }
func (c *pconn) SetReadDeadline(t time.Time) error  { return nil }
func (c *pconn) SetWriteDeadline(t time.Time) error { return nil }

type pws struct{ *pconn }

// Read follows the convention of the production transport (network/websocket websocketTransport.Read): the
// bytes of one message, then (0, nil) once as the end-of-message marker, then the next message.
// wsp.DecodeRequest reads a message up to that marker.
func (w pws) Read(p []byte) (int, error) {
	c := w.pconn
	if c.eom {
		c.eom = false
		return 0, nil
	}
	n, err := c.Read(p)
	if err == nil && n > 0 && len(c.pend) == 0 {
		c.eom = true
	}
	return n, err
}

func (w pws) Subprotocol() string           { return w.proto }
func (w pws) TextTransport() websocket.Conn { return w }
func (w pws) Path() string                  { return streamPath }
func (w pws) Username() string              { return "" }

type viewer struct {
	kind   int64
	chmap  [4]int64
	ctrl   *pconn // control connection (ws-rtsp, tcp: the only connection)
	data   *pconn // where media arrives
	chanID string
	cseq   int
	got    []msg
}

var (
	poolOnce  sync.Once
	rtspOnRaw func(net.Conn)
	wspOn     func(net.Conn)
)

func newPconn(ctl *sched.Ctl, name, proto string) *pconn {
	return &pconn{ctl: ctl, name: name, proto: proto, in: make(chan []byte, 64), closed: make(chan struct{})}
}

// exchange on a connection that nobody else writes to at this moment: feed, settle, take the answer
func (v *viewer) exchange(ctl *sched.Ctl, c *pconn, text string) string {
	c.take()
	c.in <- []byte(text)
	ctl.Settle()
	var sb strings.Builder
	for _, w := range c.take() {
		sb.Write(w)
	}
	return sb.String()
}

func (v *viewer) rtspReq(ctl *sched.Ctl, text string) string {
	v.cseq++
	text = strings.Replace(text, "CSeq: #", fmt.Sprintf("CSeq: %d", v.cseq), 1)
	if v.kind == 3 {
		r := v.exchange(ctl, v.ctrl, fmt.Sprintf("WSP/1.1 WRAP\r\nchannel: %s\r\nseq: %d\r\n\r\n%s", v.chanID, v.cseq, text))
		if i := strings.Index(r, "\r\n\r\n"); i >= 0 {
			return r[i+4:]
		}
		return r
	}
	return v.exchange(ctl, v.ctrl, text)
}

func (v *viewer) attach(ctl *sched.Ctl, i int) error {
	name := fmt.Sprintf("v%d", i)
	switch v.kind {
	case 3:
		v.ctrl = newPconn(ctl, name+"c", "control")
		wspOn(pws{v.ctrl})
		r := v.exchange(ctl, v.ctrl, "WSP/1.1 INIT\r\nproto: rtsp\r\nhost: 127.0.0.1\r\nport: 554\r\nseq: 1\r\n\r\n")
		for _, l := range strings.Split(r, "\r\n") {
			if strings.HasPrefix(strings.ToLower(l), "channel:") {
				v.chanID = strings.TrimSpace(l[8:])
			}
		}
		if !strings.HasPrefix(r, "WSP/1.1 200") || v.chanID == "" {
			return fmt.Errorf("wsp INIT refused: %.60q", r)
		}
		v.data = newPconn(ctl, name, "data")
		wspOn(pws{v.data})
		if r := v.exchange(ctl, v.data, "WSP/1.1 JOIN\r\nchannel: "+v.chanID+"\r\nseq: 1\r\n\r\n"); !strings.HasPrefix(r, "WSP/1.1 200") {
			return fmt.Errorf("wsp JOIN refused: %.60q", r)
		}
	case 2:
		v.ctrl = newPconn(ctl, name, "rtsp")
		v.data = v.ctrl
		rtspOnRaw(pws{v.ctrl})
	default:
		v.ctrl = newPconn(ctl, name, "")
		v.data = v.ctrl
		rtspOnRaw(v.ctrl)
	}
	ctl.Settle()
	reqs := []string{fmt.Sprintf("DESCRIBE rtsp://127.0.0.1:554%s RTSP/1.0\r\nCSeq: #\r\n\r\n", streamPath)}
	for _, t := range []int{0, 2} {
		if v.chmap[t] >= 0 {
			ctlName := "streamid=1"
			if t == 0 {
				ctlName = "streamid=0"
			}
			reqs = append(reqs, fmt.Sprintf("SETUP rtsp://127.0.0.1:554%s/%s RTSP/1.0\r\nCSeq: #\r\nTransport: RTP/AVP/TCP;unicast;%s\r\n\r\n",
				streamPath, ctlName, interleaved(v.chmap[t], v.chmap[t+1])))
		}
	}
	reqs = append(reqs, fmt.Sprintf("PLAY rtsp://127.0.0.1:554%s RTSP/1.0\r\nCSeq: #\r\n\r\n", streamPath))
	for _, r := range reqs {
		if resp := v.rtspReq(ctl, r); !strings.HasPrefix(resp, "RTSP/1.0 200") {
			return fmt.Errorf("viewer %d kind %d: %.30q -> %.60q", i, v.kind, r, resp)
		}
	}
	return nil
}

// what arrived on the data connection since the last call: frames are recorded, responses skipped
func (v *viewer) collect() {
	ws := v.data.take()
	if v.kind != 0 {
		for _, m := range ws {
			if len(m) == 0 || strings.HasPrefix(string(m), "RTSP/") || strings.HasPrefix(string(m), "WSP/") {
				continue
			}
			if len(m) >= 4 && m[0] == '$' && int(m[2])<<8|int(m[3]) == len(m)-4 {
				v.got = append(v.got, msg{int64(m[1]), 0, m[4:]})
			} else {
				v.got = append(v.got, msg{-1, 0, m})
			}
		}
		return
	}
	var s []byte
	for _, w := range ws {
		s = append(s, w...)
	}
	for len(s) > 0 {
		if s[0] == '$' && len(s) >= 4 && len(s) >= 4+(int(s[2])<<8|int(s[3])) {
			n := int(s[2])<<8 | int(s[3])
			v.got = append(v.got, msg{int64(s[1]), 0, append([]byte(nil), s[4:4+n]...)})
			s = s[4+n:]
			continue
		}
		if i := strings.Index(string(s), "\r\n\r\n"); strings.HasPrefix(string(s), "RTSP/") && i >= 0 {
			s = s[i+4:]
			continue
		}
		v.got = append(v.got, msg{-1, 0, s})
		return
	}
}

// case = (0 packets viewers (k0 parked mode window ctrl))
//
//	viewers = ((kind (m0 m1 m2 m3) delivered) ..)  — everybody attaches before the first packet
//	k0 packets are delivered normally, then viewer `parked` is parked in its data write (mode 1: before
//	anything of the message is taken, 2: also between its halves) while `window` packets are published and
//	the others deliver them; ctrl >= 0: that viewer gets a keep-alive request/response inside the window
//
// observation = ((received () ended) ..) notes
func RunPool(c Val) Val {
	poolOnce.Do(func() {
		runtime.GOMAXPROCS(1) // one P: a buffer returned to a sync.Pool is what the next Get hands out
		xlog.ReplaceGlobal(xlog.New(xlog.NewNopCore()))
		rtspOnRaw = rtsp.CreateAcceptHandler()
		wspOn = wsp.CreateAcceptHandler()
	})
	pkts, vs, script := c.At(1).List(), c.At(2).List(), c.At(3)
	k0, parked, mode, window, ctrlOf := int(script.At(0).Int()), int(script.At(1).Int()), int32(script.At(2).Int()),
		int(script.At(3).Int()), int(script.At(4).Int())
	media.UnregistAll()
	ctl := sched.New()
	defer ctl.Finish()
	ctl.Role = func(point string, id uint32) string {
		if i := strings.IndexByte(point, ':'); i >= 0 && strings.HasPrefix(point, "sock.write") {
			return point[i+1:]
		}
		return ""
	}
	ctl.Allow = func(thread, point string) bool { return strings.HasPrefix(point, "sock.write") }
	stream := media.NewStream(streamPath, sdpText)
	media.Regist(stream)
	viewers := make([]*viewer, len(vs))
	defer func() {
		for _, v := range viewers {
			if v != nil && v.ctrl != nil {
				v.ctrl.Close()
			}
			if v != nil && v.data != nil {
				v.data.Close()
			}
		}
		media.UnregistAll()
	}()
	ctl.Settle()
	for i, vv := range vs {
		v := &viewer{kind: vv.At(0).Int()}
		for k := 0; k < 4; k++ {
			v.chmap[k] = vv.At(1).At(k).Int()
		}
		viewers[i] = v
		if err := v.attach(ctl, i); err != nil {
			return L(S("!setup"), S(err.Error()))
		}
	}
	if stream.ConsumerCount() != len(viewers) {
		return L(S("!setup"), S("not every viewer is consuming"))
	}
	next := 0
	publish := func(n int) {
		for ; n > 0 && next < len(pkts); n-- {
			p := pkts[next]
			next++
			pk := &rtp.Packet{Channel: byte(p.At(0).Int()), Data: p.At(1).Bytes()}
			if pk.Channel == rtp.ChannelVideo || pk.Channel == rtp.ChannelAudio {
				if err := pk.Header.Unmarshal(pk.Data); err != nil {
					panic(err)
				}
			}
			stream.WriteRtpPacket(pk)
			ctl.Settle()
		}
	}
	keepAlive := func(v *viewer) {
		v.cseq++
		text := fmt.Sprintf("OPTIONS rtsp://127.0.0.1:554%s RTSP/1.0\r\nCSeq: %d\r\n\r\n", streamPath, v.cseq)
		if v.kind == 3 {
			text = fmt.Sprintf("WSP/1.1 WRAP\r\nchannel: %s\r\nseq: %d\r\n\r\n%s", v.chanID, v.cseq, text)
		}
		v.ctrl.in <- []byte(text)
		ctl.Settle()
	}
	note := ""
	publish(k0)
	a := viewers[parked]
	thread := a.data.name
	if a.kind == 0 {
		// RTSP/TCP: Packet.Write hands the 4-byte prefix and the payload to buffered.Conn one after the other;
		// with an empty queue and a flush token the prefix goes straight to the socket (the caller's slice is
		// what the socket reads).  A keep-alive empties the queue, 40 ms bring one token back (30 per second).
		keepAlive(a)
		time.Sleep(40 * time.Millisecond)
	}
	atomic.StoreInt32(&a.data.armed, mode)
	publish(window) // the first one parks the viewer inside its write; the others pile up in its queue
	if st := ctl.Status(thread); !strings.HasPrefix(st, "sock.write") {
		note = "viewer not parked: " + st
	}
	if ctrlOf >= 0 && ctrlOf < len(viewers) {
		keepAlive(viewers[ctrlOf])
	}
	// release: one message at a time stays under control until the window's backlog is out
	for guard := 0; guard < 400 && strings.HasPrefix(ctl.Status(thread), "sock.write"); guard++ {
		if mode == 2 && ctl.Status(thread) == "sock.write2:"+thread && guard%3 == 0 {
			publish(1) // between the halves of a message: the others run once more
		}
		ctl.Step(thread)
	}
	atomic.StoreInt32(&a.data.armed, 0)
	ctl.Finish()
	publish(len(pkts)) // the rest, uncontrolled
	for _, v := range viewers {
		if v.kind == 0 {
			keepAlive(v) // flush the interleaved frames still queued in buffered.Conn
		}
	}
	ctl.Settle()
	out := make([]Val, len(viewers))
	for i, v := range viewers {
		v.collect()
		ms := make([]Val, len(v.got))
		for k, m := range v.got {
			ms[k] = L(I(m.a), B(m.data))
		}
		out[i] = L(L(ms...), L(), Bo(false))
	}
	return L(L(out...), L(), S(note))
}

// RunTwoTCP (C13, stream "two-sessions"): two or three RTSP/TCP viewers of one stream, each on its own
// scripted connection.  Viewer 0 is parked inside the socket write of a frame prefix (its queue was
// emptied and a flush token is available, so buffered.Conn hands the caller's slice straight to the
// socket) while the other viewers deliver frames with other channel numbers and lengths on THEIR
// connections; then it continues.  Per connection the bytes must be complete frames and responses
// of that connection.
// case = (packets ((chmap) ..) (k0 window mode));  observation = (((sink (response ..)) ..) note)
func RunTwoTCP(c Val) Val {
	poolOnce.Do(func() {
		runtime.GOMAXPROCS(1)
		xlog.ReplaceGlobal(xlog.New(xlog.NewNopCore()))
		rtspOnRaw = rtsp.CreateAcceptHandler()
		wspOn = wsp.CreateAcceptHandler()
	})
	pkts, vs, script := c.At(0).List(), c.At(1).List(), c.At(2)
	k0, window, mode := int(script.At(0).Int()), int(script.At(1).Int()), int32(script.At(2).Int())
	media.UnregistAll()
	ctl := sched.New()
	defer ctl.Finish()
	ctl.Role = func(point string, id uint32) string {
		if i := strings.IndexByte(point, ':'); i >= 0 && strings.HasPrefix(point, "sock.write") {
			return point[i+1:]
		}
		return ""
	}
	ctl.Allow = func(thread, point string) bool { return strings.HasPrefix(point, "sock.write") }
	stream := media.NewStream(streamPath, sdpText)
	media.Regist(stream)
	viewers := make([]*viewer, len(vs))
	defer func() {
		for _, v := range viewers {
			if v != nil && v.ctrl != nil {
				v.ctrl.Close()
			}
		}
		media.UnregistAll()
	}()
	ctl.Settle()
	const tpl = "770077"
	templates := make([]string, len(vs))
	resps := make([][]Val, len(vs))
	for i, vv := range vs {
		v := &viewer{kind: 0}
		for k := 0; k < 4; k++ {
			v.chmap[k] = vv.At(k).Int()
		}
		viewers[i] = v
		if err := v.attach(ctl, i); err != nil {
			return L(S("!setup"), S(err.Error()))
		}
		// what this connection's server answers to a keep-alive while nothing else writes
		templates[i] = v.exchange(ctl, v.ctrl, fmt.Sprintf("OPTIONS rtsp://127.0.0.1:554%s RTSP/1.0\r\nCSeq: %s\r\n\r\n", streamPath, tpl))
		if !strings.Contains(templates[i], "CSeq: "+tpl+"\r\n") {
			return L(S("!setup"), S("no keep-alive template"))
		}
		v.cseq = 1000 * (i + 1)
	}
	next := 0
	publish := func(n int) {
		for ; n > 0 && next < len(pkts); n-- {
			p := pkts[next]
			next++
			pk := &rtp.Packet{Channel: byte(p.At(0).Int()), Data: p.At(1).Bytes()}
			if pk.Channel == rtp.ChannelVideo || pk.Channel == rtp.ChannelAudio {
				if err := pk.Header.Unmarshal(pk.Data); err != nil {
					panic(err)
				}
			}
			stream.WriteRtpPacket(pk)
			ctl.Settle()
		}
	}
	keepAlive := func(i int) {
		v := viewers[i]
		v.cseq++
		resps[i] = append(resps[i], S(strings.Replace(templates[i], "CSeq: "+tpl+"\r\n", fmt.Sprintf("CSeq: %d\r\n", v.cseq), 1)))
		v.ctrl.in <- []byte(fmt.Sprintf("OPTIONS rtsp://127.0.0.1:554%s RTSP/1.0\r\nCSeq: %d\r\n\r\n", streamPath, v.cseq))
		ctl.Settle()
	}
	note := ""
	publish(k0)
	a := viewers[0]
	keepAlive(0)
	time.Sleep(40 * time.Millisecond) // one flush token comes back
	atomic.StoreInt32(&a.data.armed, mode)
	publish(window)
	if st := ctl.Status(a.data.name); !strings.HasPrefix(st, "sock.write") {
		note = "viewer not parked: " + st
	}
	for guard := 0; guard < 400 && strings.HasPrefix(ctl.Status(a.data.name), "sock.write"); guard++ {
		if mode == 2 && ctl.Status(a.data.name) == "sock.write2:"+a.data.name && guard%3 == 0 {
			publish(1)
		}
		ctl.Step(a.data.name)
	}
	atomic.StoreInt32(&a.data.armed, 0)
	ctl.Finish()
	publish(len(pkts))
	for i := range viewers {
		keepAlive(i)
	}
	ctl.Settle()
	out := make([]Val, len(viewers))
	for i, v := range viewers {
		var sink []byte
		for _, w := range v.ctrl.take() {
			sink = append(sink, w...)
		}
		out[i] = L(B(sink), L(resps[i]...))
	}
	return L(L(out...), S(note))
}
