package transports

// The multicast proxy of a RECORD stream through repeated use cycles (C03, stream
// "multicast-cycles"; model coq/Model/C03Mcast.v).  Real RTSP sessions join the stream's
// multicast group (SETUP multicast + PLAY), leave by TEARDOWN or by dropping the connection,
// packets are published in between, finally the stream ends.  The proxy's delivery goroutines
// (one per cycle) are held at the schedule points consume.pop / consume.got and stepped by the
// harness, so that the deferred Consumer.Close of a cycle stopped by its last member can be
// delayed until after the next cycle has started.
//
// case        = (n events)   events = ((0 i) join | (1 i mode) leave | (2) publish | (3) end | (4) exit)
// observation = ((cc sock members (ended ..) (received ..)) ..)  one per event

import (
	"fmt"
	"math/rand"
	"strings"
	"sync"
	"time"

	. "vh/lib"
	"vh/sched"

	"github.com/cnotch/ipchub/av/format/rtp"
	"github.com/cnotch/ipchub/media"
	"github.com/cnotch/ipchub/service/rtsp"
)

func RunMcast(c Val) Val {
	start()
	n, evs := int(c.At(0).Int()), c.At(1).List()
	media.UnregistAll()
	settle()
	pub, err := publishViaSession()
	if pub != nil {
		defer pub.Close()
	}
	if err != nil {
		return L(S("!setup"), S(err.Error()))
	}
	stream := media.Get(streamPath)
	if stream == nil || stream.Multicastable() == nil {
		return L(S("!setup"), S("no multicast stream"))
	}
	ma := stream.Multicastable()

	// the delivery goroutines of the proxy's consumptions are controlled threads "g<cid>"
	ctl := sched.New()
	quiet = ctl
	var mu sync.Mutex
	var names []string
	held := map[string]bool{}
	ctl.Role = func(point string, id uint32) string {
		if !strings.HasPrefix(point, "consume.") {
			return ""
		}
		name := fmt.Sprintf("g%d", id)
		mu.Lock()
		found := false
		for _, x := range names {
			if x == name {
				found = true
			}
		}
		if !found {
			names = append(names, name)
		}
		mu.Unlock()
		return name
	}
	ctl.Allow = func(thread, point string) bool { return strings.HasPrefix(point, "consume.") }
	threads := func() []string {
		mu.Lock()
		defer mu.Unlock()
		return append([]string(nil), names...)
	}
	// let every delivery goroutine that is not held run until it blocks or ends
	pump := func() {
		settle()
		for progress := true; progress; {
			progress = false
			for _, name := range threads() {
				mu.Lock()
				h := held[name]
				mu.Unlock()
				if h {
					continue
				}
				switch ctl.Status(name) {
				case "", "done", "blocked":
				default:
					if ctl.Step(name) {
						progress = true
					}
				}
			}
		}
	}

	nonce := make([]byte, 4)
	rnd := rand.New(rand.NewSource(time.Now().UnixNano()))
	for i := range nonce {
		nonce[i] = byte(rnd.Intn(256))
	}
	clients := make([]*client, n)
	for i := range clients {
		clients[i] = &client{kind: 6, genEnd: -1, chmap: [4]int64{0, -1, -1, -1}, nonce: nonce}
	}
	defer func() {
		ctl.Finish()
		for _, cl := range clients {
			cl.cleanup()
		}
		media.UnregistAll()
		settle()
	}()

	state := func() (members int, sock bool) {
		m, s, _, _ := rtsp.VerifMulticastState(ma)
		return m, s
	}
	member := make([]bool, n) // the specification's member set (what the harness waits for)
	want := make([]int, n)    // packets each session should have by now
	alive := true
	nmem := func() int {
		k := 0
		for _, b := range member {
			if b {
				k++
			}
		}
		return k
	}
	var heldOrder []string
	seq := 100
	snaps := []Val{}
	for _, e := range evs {
		switch e.At(0).Int() {
		case 0: // join
			i := int(e.At(1).Int())
			if i < 0 || i >= n {
				return L(S("!badcase"), S("session index"))
			}
			cl := clients[i]
			cl.noCountWait = true
			if err := cl.attach(stream); err != nil {
				return L(S("!setup"), S(err.Error()))
			}
			cl.attached = true
			if alive {
				member[i] = true
			}
			waitUntil(3*time.Second, func() bool { m, _ := state(); return m == nmem() })
			pump()
		case 1: // leave
			i := int(e.At(1).Int())
			if i < 0 || i >= n || !clients[i].attached {
				return L(S("!badcase"), S("leave of a session that never joined"))
			}
			wasMember := member[i]
			member[i] = false
			if wasMember && nmem() == 0 {
				// this leave stops the cycle: its delivery goroutine runs its deferred Close at a later "exit" event
				if ts := threads(); len(ts) > 0 {
					name := ts[len(ts)-1]
					mu.Lock()
					if !held[name] && ctl.Status(name) != "done" {
						held[name] = true
						heldOrder = append(heldOrder, name)
					}
					mu.Unlock()
				}
			}
			clients[i].stop(e.At(2).Int())
			for k, u := range clients[i].udp { // a player that has left no longer listens on the group
				if u != nil {
					u.Close()
					clients[i].udp[k] = nil
				}
			}
			waitUntil(3*time.Second, func() bool { m, _ := state(); return clients[i].isEnded() && m == nmem() })
			pump()
		case 2: // publish one packet (a non-key video frame: nothing the cache would replay to a later cycle)
			seq++
			d := []byte{0x80, 0x80 | 96, byte(seq >> 8), byte(seq), 0, 0, byte(seq >> 8), byte(seq)}
			d = append(d, nonce...)
			d = append(d, 0x41, byte(seq), 1, 2, 3)
			pk := &rtp.Packet{Channel: rtp.ChannelVideo, Data: d}
			if err := pk.Header.Unmarshal(pk.Data); err != nil {
				return L(S("!badcase"), S(err.Error()))
			}
			stream.WriteRtpPacket(pk)
			if alive {
				for i := range want {
					if member[i] {
						want[i]++
					}
				}
			}
			pump()
			waitUntil(1500*time.Millisecond, func() bool {
				for i, cl := range clients {
					if member[i] && cl.count() < want[i] {
						return false
					}
				}
				return true
			})
			pump()
		case 3: // the stream ends
			alive = false
			stream.Close()
			pump()
			waitUntil(3*time.Second, func() bool {
				for i, cl := range clients {
					if member[i] && !cl.isEnded() {
						return false
					}
				}
				return true
			})
			for i := range member {
				member[i] = false
			}
			pump()
		default: // the oldest held delivery goroutine runs on: pops the nil pack, leaves its loop, deferred Close
			if len(heldOrder) > 0 {
				name := heldOrder[0]
				heldOrder = heldOrder[1:]
				mu.Lock()
				held[name] = false
				mu.Unlock()
			}
			pump()
			settle()
		}
		settle()
		m, sock := state()
		ended := make([]Val, n)
		got := make([]Val, n)
		for i, cl := range clients {
			ended[i] = Bo(cl.isEnded())
			got[i] = I(int64(cl.count()))
		}
		snaps = append(snaps, L(I(int64(stream.ConsumerCount())), Bo(sock), I(int64(m)), L(ended...), L(got...)))
	}
	return L(snaps...)
}
