package transports

// The stream's SOURCE as a real transport (C03, stream "source-release"; model
// coq/Model/C03Source.v): an RTSP RECORD session over TCP publishes the stream, real players of
// mixed transports attach to whatever is registered under the path; the publisher repeats
// OPTIONS / ANNOUNCE / SETUP / RECORD at scripted moments, another publisher may take the path,
// and the source ends by TEARDOWN or by dropping its connection.  After every event: the
// consumer count of every stream ever registered under the path (detected through the
// registry after each publishing request), the active RTSP / FLV / WSP connections relative
// to before the case, which players have seen their connection end, and the conversion
// goroutines (RTP demuxer, FLV muxer, TS muxer) alive in the process.
//
// case        = ((kind ..) ((0 r) | (1 c) | (2 c mode) | (3) | (4 how) ..))
// observation = (((cc ..) rtsp flv wsp (ended ..) (demuxers flvmuxers tsmuxers)) ..)

import (
	"bufio"
	"bytes"
	"fmt"
	"net"
	"runtime"
	"time"

	. "vh/lib"

	"github.com/cnotch/ipchub/media"
	"github.com/cnotch/ipchub/stats"
)

var convFrames = [][]byte{[]byte("rtp.(*Demuxer).process"), []byte("flv.(*Muxer).process"), []byte("mpegts.(*Muxer).process")}

func countConv() [3]int64 {
	buf := make([]byte, 1<<20)
	for {
		n := runtime.Stack(buf, true)
		if n < len(buf) {
			buf = buf[:n]
			break
		}
		buf = make([]byte, 2*len(buf))
	}
	var out [3]int64
	for _, blk := range bytes.Split(buf, []byte("\n\n")) {
		for i, f := range convFrames {
			if bytes.Contains(blk, f) {
				out[i]++
			}
		}
	}
	return out
}

func RunSource(c Val) Val {
	start()
	kinds, evs := c.At(0).List(), c.At(1).List()
	media.UnregistAll()
	settle()
	convBase := countConv()
	base := [3]int64{stats.RtspConns.GetSample().Active, stats.FlvConns.GetSample().Active, stats.WspConns.GetSample().Active}

	pub, err := net.Dial("tcp", rtspL.Addr().String())
	if err != nil {
		return L(S("!setup"), S(err.Error()))
	}
	defer pub.Close()
	br := bufio.NewReader(pub)
	cseq := 0
	u := "rtsp://127.0.0.1:554" + streamPath
	pubReq := func(r int64) {
		cseq++
		var text string
		switch r {
		case 0:
			text = fmt.Sprintf("OPTIONS %s RTSP/1.0\r\nCSeq: %d\r\n\r\n", u, cseq)
		case 1:
			text = fmt.Sprintf("ANNOUNCE %s RTSP/1.0\r\nCSeq: %d\r\nContent-Type: application/sdp\r\nContent-Length: %d\r\n\r\n%s", u, cseq, len(sdpText), sdpText)
		case 2:
			text = fmt.Sprintf("SETUP %s/streamid=0 RTSP/1.0\r\nCSeq: %d\r\nTransport: RTP/AVP/TCP;unicast;interleaved=0-1;mode=record\r\n\r\n", u, cseq)
		case 3:
			text = fmt.Sprintf("RECORD %s RTSP/1.0\r\nCSeq: %d\r\n\r\n", u, cseq)
		default:
			text = fmt.Sprintf("TEARDOWN %s RTSP/1.0\r\nCSeq: %d\r\n\r\n", u, cseq)
		}
		if _, err := pub.Write([]byte(text)); err != nil {
			return
		}
		pub.SetReadDeadline(time.Now().Add(5 * time.Second))
		readRTSPResponse(br)
		pub.SetReadDeadline(time.Time{})
	}

	var streams []*media.Stream
	mine := map[*media.Stream]bool{}
	detect := func(own bool) {
		st := media.Get(streamPath)
		if st == nil {
			return
		}
		for _, x := range streams {
			if x == st {
				return
			}
		}
		streams = append(streams, st)
		mine[st] = own
	}
	clients := make([]*client, len(kinds))
	for i, kv := range kinds {
		clients[i] = &client{kind: kv.Int(), genEnd: -1, chmap: [4]int64{0, 1, 2, 3}}
	}
	var others []net.Conn
	defer func() {
		for _, o := range others {
			o.Close()
		}
		for _, cl := range clients {
			cl.cleanup()
		}
		pub.Close()
		media.UnregistAll()
		settle()
	}()

	snaps := []Val{}
	for _, e := range evs {
		switch e.At(0).Int() {
		case 0:
			pubReq(e.At(1).Int())
			settle()
			detect(true)
		case 1:
			i := int(e.At(1).Int())
			st := media.Get(streamPath)
			if i < 0 || i >= len(clients) || st == nil {
				return L(S("!badcase"), S("attach"))
			}
			if err := clients[i].attach(st); err != nil {
				return L(S("!setup"), S(err.Error()))
			}
			clients[i].attached = true
			clients[i].stream = st
		case 2:
			i := int(e.At(1).Int())
			if i < 0 || i >= len(clients) || !clients[i].attached {
				return L(S("!badcase"), S("detach"))
			}
			cl := clients[i]
			before := cl.stream.ConsumerCount()
			cl.stop(e.At(2).Int())
			waitUntil(3*time.Second, func() bool { return cl.isEnded() && cl.stream.ConsumerCount() < before })
		case 3:
			o, err := publishViaSession()
			if o != nil {
				others = append(others, o)
			}
			if err != nil {
				return L(S("!setup"), S(err.Error()))
			}
			settle()
			detect(false)
		default:
			if e.At(1).Int() == 0 {
				pubReq(4)
			}
			pub.Close()
			// the source is gone: every stream it published ends, with it the connection of every player attached to one
			waitUntil(3*time.Second, func() bool {
				for _, st := range streams {
					if mine[st] && st.ConsumerCount() != 0 {
						return false
					}
				}
				for _, cl := range clients {
					if cl.attached && mine[cl.stream] && !cl.isEnded() {
						return false
					}
				}
				return true
			})
		}
		settle()
		gens := make([]Val, len(streams))
		for i, st := range streams {
			gens[i] = I(int64(st.ConsumerCount()))
		}
		ended := make([]Val, len(clients))
		for i, cl := range clients {
			ended[i] = Bo(cl.isEnded())
		}
		cv := countConv()
		snaps = append(snaps, L(L(gens...),
			I(stats.RtspConns.GetSample().Active-base[0]), I(stats.FlvConns.GetSample().Active-base[1]),
			I(stats.WspConns.GetSample().Active-base[2]), L(ended...),
			L(I(cv[0]-convBase[0]), I(cv[1]-convBase[1]), I(cv[2]-convBase[2]))))
	}
	return L(snaps...)
}
