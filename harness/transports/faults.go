package transports

// Fault injection on the transport adapters (C03, stream "adapter-faults"; model
// coq/Model/C03Adapter.v): viewers whose attach fails at a scripted step — the client drops its
// connection after k answered handshake requests (RTSP/TCP, RTSP/UDP, ws-rtsp, WSP: real sockets),
// or the in-memory connection of an FLV viewer refuses the stream / fails the header write / fails a
// later tag write / is closed by the peer (HTTP-FLV, ws-FLV: the production handlers
// flv.ConsumeByHTTP / flv.ConsumeByWebsocket on a fake ResponseWriter / websocket.Conn) — while
// other viewers stay attached.  After every attempt: the active RTSP / FLV / WSP connection counters
// relative to their values before the case and the consumers registered on the streams.
//
// case        = ((kind ..) ((kind nreq point) ..))
// observation = ((rtsp flv wsp consumers) ..)   one per attempt, one after the end of the stream

import (
	"errors"
	"io"
	"net"
	"net/http"
	"sync"
	"sync/atomic"
	"time"

	. "vh/lib"

	"github.com/cnotch/ipchub/av/format/rtp"
	"github.com/cnotch/ipchub/media"
	"github.com/cnotch/ipchub/network/websocket"
	svcflv "github.com/cnotch/ipchub/service/flv"
	"github.com/cnotch/ipchub/stats"
	"github.com/cnotch/xlog"
)

const noFlvPath = "/tr/noflv"
const noFlvSdp = "v=0\r\no=- 0 0 IN IP4 127.0.0.1\r\ns=t\r\nc=IN IP4 127.0.0.1\r\nt=0 0\r\n" +
	"m=audio 0 RTP/AVP 8\r\na=rtpmap:8 PCMA/8000\r\na=control:streamid=0\r\n"

// in-memory websocket.Conn: reads block until it is closed, writes fail once failing is set
type fakeWS struct {
	failing int32
	once    sync.Once
	done    chan struct{}
}

func newFakeWS(failing bool) *fakeWS {
	c := &fakeWS{done: make(chan struct{})}
	if failing {
		c.failing = 1
	}
	return c
}
func (c *fakeWS) Read(b []byte) (int, error) { <-c.done; return 0, io.EOF }
func (c *fakeWS) Write(b []byte) (int, error) {
	select {
	case <-c.done:
		return 0, io.ErrClosedPipe
	default:
	}
	if atomic.LoadInt32(&c.failing) != 0 {
		return 0, errors.New("write: broken pipe")
	}
	return len(b), nil
}
func (c *fakeWS) Close() error { c.once.Do(func() { close(c.done) }); return nil }
func (c *fakeWS) isClosed() bool {
	select {
	case <-c.done:
		return true
	default:
		return false
	}
}
func (c *fakeWS) LocalAddr() net.Addr                { return &net.TCPAddr{IP: net.IPv4(127, 0, 0, 1), Port: 1} }
func (c *fakeWS) RemoteAddr() net.Addr               { return &net.TCPAddr{IP: net.IPv4(127, 0, 0, 1), Port: 2} }
func (c *fakeWS) SetDeadline(t time.Time) error      { return nil }
func (c *fakeWS) SetReadDeadline(t time.Time) error  { return nil }
func (c *fakeWS) SetWriteDeadline(t time.Time) error { return nil }
func (c *fakeWS) Subprotocol() string                { return "" }
func (c *fakeWS) TextTransport() websocket.Conn      { return c }
func (c *fakeWS) Path() string                       { return streamPath }
func (c *fakeWS) Username() string                   { return "" }

// in-memory http.ResponseWriter whose Write fails once failing is set
type fakeRW struct {
	failing int32
	h       http.Header
}

func (w *fakeRW) Header() http.Header { return w.h }
func (w *fakeRW) WriteHeader(int)     {}
func (w *fakeRW) Write(b []byte) (int, error) {
	if atomic.LoadInt32(&w.failing) != 0 {
		return 0, errors.New("write: connection reset by peer")
	}
	return len(b), nil
}

// an H.264 key frame as three RTP packets (SPS, PPS, IDR): makes the FLV muxer emit tags
func keyFramePackets(seq *int) []*rtp.Packet {
	sps := []byte{0x67, 0x64, 0x00, 0x1f, 0xac, 0xd9, 0x40, 0x50, 0x05, 0xba, 0x10, 0x00, 0x00, 0x03, 0x00, 0x10, 0x00, 0x00, 0x03, 0x03, 0xc8, 0xf1, 0x83, 0x19, 0x60}
	pps := []byte{0x68, 0xef, 0xbc, 0xb0}
	idr := []byte{0x65, 0x88, 0x84, 0x00, 0x10, 0x20, 0x30, 0x40, 0x50}
	out := []*rtp.Packet{}
	for _, nal := range [][]byte{sps, pps, idr} {
		*seq++
		ts := 3600 * *seq
		d := []byte{0x80, 0x80 | 96, byte(*seq >> 8), byte(*seq), byte(ts >> 24), byte(ts >> 16), byte(ts >> 8), byte(ts), 1, 2, 3, 4}
		d = append(d, nal...)
		pk := &rtp.Packet{Channel: rtp.ChannelVideo, Data: d}
		if pk.Header.Unmarshal(pk.Data) == nil {
			out = append(out, pk)
		}
	}
	return out
}

func RunFaults(c Val) Val {
	start()
	bgv, atts := c.At(0).List(), c.At(1).List()
	media.UnregistAll()
	settle()
	stream := media.NewStream(streamPath, sdpText)
	media.Regist(stream)
	noflv := media.NewStream(noFlvPath, noFlvSdp)
	media.Regist(noflv)
	if noflv.FlvTypeFlags() != 0 || stream.FlvTypeFlags() == 0 {
		return L(S("!setup"), S("flv type flags of the two streams"))
	}
	settle()
	base := [3]int64{stats.RtspConns.GetSample().Active, stats.FlvConns.GetSample().Active, stats.WspConns.GetSample().Active}
	var all []*client
	defer func() {
		for _, cl := range all {
			cl.cleanup()
		}
		media.UnregistAll()
		settle()
	}()
	want := [4]int64{} // the specification: what the counters and the consumer count must be back to
	for _, kv := range bgv {
		cl := &client{kind: kv.Int(), genEnd: -1, chmap: [4]int64{0, 1, 2, 3}}
		all = append(all, cl)
		if err := cl.attach(stream); err != nil {
			return L(S("!setup"), S(err.Error()))
		}
		cl.attached = true
		switch cl.kind {
		case 3:
			want[2]++
		case 4, 5:
			want[1]++
		default:
			want[0]++
		}
		want[3]++
	}
	settle()
	now := func() [4]int64 {
		return [4]int64{stats.RtspConns.GetSample().Active - base[0], stats.FlvConns.GetSample().Active - base[1],
			stats.WspConns.GetSample().Active - base[2], int64(stream.ConsumerCount() + noflv.ConsumerCount())}
	}
	snaps := []Val{}
	snapshot := func(w [4]int64) {
		waitUntil(3*time.Second, func() bool { return now() == w })
		settle()
		v := now()
		snaps = append(snaps, L(I(v[0]), I(v[1]), I(v[2]), I(v[3])))
	}
	seq := 200
	publishKey := func() {
		for _, pk := range keyFramePackets(&seq) {
			stream.WriteRtpPacket(pk)
		}
		settle()
	}
	publishKey() // the FLV cache holds a sequence header and a key frame from now on
	for _, av := range atts {
		kind, point := av.At(0).Int(), int(av.At(2).Int())
		switch kind {
		case 0, 1, 2, 3:
			cl := &client{kind: kind, genEnd: -1, chmap: [4]int64{0, 1, 2, 3}, faulty: true, abortAfter: point}
			all = append(all, cl)
			err := cl.attach(stream)
			if err == nil { // the whole handshake went through: the viewer is attached, then its peer goes away
				settle()
				cl.stop(1)
			} else if err != errAborted {
				return L(S("!setup"), S(err.Error()))
			}
		case 4, 5:
			path := streamPath
			if point == 0 {
				path = "/tr/nothing-here"
			} else if point == 1 {
				path = noFlvPath
			}
			before := stream.ConsumerCount()
			done := make(chan struct{})
			var ws *fakeWS
			var rw *fakeRW
			if kind == 5 {
				ws = newFakeWS(point == 2)
				go func() {
					defer close(done)
					svcflv.ConsumeByWebsocket(xlog.L(), path, "127.0.0.1:2", ws)
				}()
			} else {
				rw = &fakeRW{h: http.Header{}}
				if point == 2 {
					rw.failing = 1
				}
				go func() {
					defer close(done)
					svcflv.ConsumeByHTTP(xlog.L(), path, "127.0.0.1:2", rw)
				}()
			}
			if point >= 3 {
				// attached; then a tag write fails (point 3, and every later point of HTTP-FLV) or the peer closes
				if !waitUntil(3*time.Second, func() bool { return stream.ConsumerCount() == before+1 }) {
					return L(S("!setup"), S("flv viewer not attached"))
				}
				settle()
				if kind == 5 && point > 3 {
					ws.Close()
				} else {
					if kind == 5 {
						atomic.StoreInt32(&ws.failing, 1)
					} else {
						atomic.StoreInt32(&rw.failing, 1)
					}
					publishKey()
				}
			}
			select {
			case <-done:
			case <-time.After(5 * time.Second):
				return L(S("!setup"), S("flv handler did not return"))
			}
			if ws != nil && !ws.isClosed() {
				return L(S("!setup"), S("ws-flv connection not closed by the handler"))
			}
		default:
			return L(S("!badcase"), S("kind"))
		}
		snapshot(want)
	}
	stream.Close()
	noflv.Close()
	snapshot([4]int64{})
	return L(snaps...)
}
