package transports

// RunC07: the C07 isolation replay with real viewers (add-only file of the C07 worker; it uses the
// package's clients and handshakes unchanged).  Same case and observation format as Run, but every
// client attaches before the first packet, the packets are published one at a time, and after each
// one the harness waits for exactly the clients that are owed it (a packet a transport cannot carry
// — e.g. 65508..65535 bytes on UDP — is owed to nobody on that transport), so a run with such
// packets costs no time-outs.  Two snapshots are returned: before and after the stream is closed.

import (
	"bytes"
	"fmt"
	"time"

	. "vh/lib"

	"github.com/cnotch/ipchub/av/format/rtp"
	"github.com/cnotch/ipchub/media"
)

// safeSettle: the package's settle gives up with a panic after 20 s; for this replay that is "not evaluated"
func safeSettle() (ok bool) {
	defer func() {
		if recover() != nil {
			ok = false
		}
	}()
	settle()
	return true
}

func RunC07(c Val) Val {
	start()
	refs, pkts, cls := c.At(0).Bool(), c.At(1).List(), c.At(2).List()
	media.UnregistAll()
	if !safeSettle() {
		return L(S("!uneval"), S("settle"))
	}
	var stream *media.Stream
	needMcast := false
	for _, cv := range cls {
		if cv.At(0).Int() == 6 {
			needMcast = true
		}
	}
	if needMcast {
		pub, err := publishViaSession()
		if pub != nil {
			defer pub.Close()
		}
		if err != nil {
			return L(S("!setup"), S(err.Error()))
		}
		stream = media.Get(streamPath)
	} else {
		stream = media.NewStream(streamPath, sdpText)
		media.Regist(stream)
	}
	if stream == nil {
		return L(S("!setup"), S("no stream"))
	}
	clients := make([]*client, len(cls))
	owed := make([]map[int]bool, len(cls))
	for i, cv := range cls {
		cl := &client{kind: cv.At(0).Int(), genEnd: -1}
		if len(pkts) > 0 && len(pkts[0].At(1).Bytes()) >= 12 {
			cl.nonce = pkts[0].At(1).Bytes()[8:12]
		}
		for k := 0; k < 4; k++ {
			cl.chmap[k] = cv.At(1).At(k).Int()
		}
		owed[i] = map[int]bool{}
		for _, d := range cv.At(2).List() {
			owed[i][int(d.Int())] = true
		}
		clients[i] = cl
	}
	defer func() {
		for _, cl := range clients {
			cl.cleanup()
		}
		media.UnregistAll()
		safeSettle()
	}()
	for _, cl := range clients {
		if err := cl.attach(stream); err != nil {
			return L(S("!uneval"), S("handshake: "+err.Error()))
		}
		cl.attached = true
		cl.stream = stream
		if refs && cl.isFLV() {
			cl.ref = &refConsumer{}
			cl.refCID = stream.StartConsume(cl.ref, media.FLVPacket, "verif-reference")
		}
		safeSettle()
	}
	note := ""
	// events (0 n): the next n packets are published back to back (a burst fills the sessions' write buffers)
	groupEnd := map[int]bool{}
	pos := 0
	for _, e := range c.At(3).List() {
		if e.At(0).Int() == 0 {
			pos += int(e.At(1).Int())
			groupEnd[pos-1] = true
		}
	}
	// Pacing: after a packet (or burst) wait for the event itself — the packet has reached every viewer
	// that is owed it — with a bound that only an unschedulable machine or real damage reaches.  A bound
	// that is hit is not a verdict; twice in a row and the rest of the case is published without pacing.
	const bound = 60 * time.Second
	boundHits, consecutive := 0, 0
	has := func(cl *client, ch int64, data []byte) bool {
		rec := ch
		if cl.kind != 1 && cl.kind != 6 {
			rec = cl.chmap[ch]
		}
		cl.mu.Lock()
		defer cl.mu.Unlock()
		for i := len(cl.msgs) - 1; i >= 0; i-- {
			if cl.msgs[i].a == rec && bytes.Equal(cl.msgs[i].data, data) {
				return true
			}
		}
		return false
	}
	var pending []int
	for idx, p := range pkts {
		pk := &rtp.Packet{Channel: byte(p.At(0).Int()), Data: p.At(1).Bytes()}
		if pk.Channel == rtp.ChannelVideo || pk.Channel == rtp.ChannelAudio {
			if err := pk.Header.Unmarshal(pk.Data); err != nil {
				return L(S("!badcase"), S(err.Error()))
			}
		}
		stream.WriteRtpPacket(pk)
		pending = append(pending, idx)
		if !groupEnd[idx] && idx < pos {
			continue // inside a burst
		}
		if consecutive >= 2 {
			pending = pending[:0]
			continue
		}
		if !safeSettle() {
			return L(S("!uneval"), S("settle"))
		}
		hit := false
		for i, cl := range clients {
			if cl.isEnded() {
				continue
			}
			cl := cl
			if cl.isFLV() {
				if cl.kind == 5 && cl.ref != nil && !waitUntil(bound, func() bool { return cl.count() >= cl.ref.count() || cl.isEnded() }) {
					hit = true
				}
				continue
			}
			for _, j := range pending {
				ch := pkts[j].At(0).Int()
				if !owed[i][j] || cl.chmap[ch] < 0 {
					continue
				}
				data := pkts[j].At(1).Bytes()
				if cl.kind == 0 && !has(cl, ch, data) {
					// interleaved frames wait in the session's buffered.Conn until a write gets a flush token;
					// a keep-alive request makes the server flush
					safeSettle()
					cl.request(fmt.Sprintf("OPTIONS rtsp://127.0.0.1:554%s RTSP/1.0\r\nCSeq: #\r\n\r\n", streamPath))
				}
				if !waitUntil(bound, func() bool { return has(cl, ch, data) || cl.isEnded() }) {
					hit = true
					if note == "" {
						note = fmt.Sprintf("client %d: packet %d not seen within the bound", i, j)
					}
					break
				}
			}
		}
		pending = pending[:0]
		if hit {
			boundHits++
			consecutive++
		} else {
			consecutive = 0
		}
	}
	if !safeSettle() {
		return L(S("!uneval"), S("settle"))
	}
	if boundHits > 0 {
		// positive evidence of damage: a session has ended, a viewer read something that is not a frame, or
		// a viewer misses an owed packet although a later one of the same channel has reached it
		evidence := false
		for i, cl := range clients {
			if cl.isEnded() {
				evidence = true
			}
			cl.mu.Lock()
			for _, m := range cl.msgs {
				if m.a < 0 && !cl.isFLV() {
					evidence = true
				}
			}
			cl.mu.Unlock()
			if cl.isFLV() {
				continue
			}
			for ch := int64(0); ch < 4; ch++ {
				missing := false
				for j := range pkts {
					if pkts[j].At(0).Int() != ch || !owed[i][j] || cl.chmap[ch] < 0 {
						continue
					}
					if has(cl, ch, pkts[j].At(1).Bytes()) {
						if missing {
							evidence = true
						}
					} else {
						missing = true
					}
				}
			}
		}
		if !evidence {
			return L(S("!uneval"), S(note))
		}
	}
	snap := func() Val {
		ended := make([]Val, len(clients))
		for i, cl := range clients {
			ended[i] = Bo(cl.isEnded())
		}
		return L(I(int64(stream.ConsumerCount())), I(0), I(0), I(0), L(ended...), I(0), L())
	}
	before := snap()
	stream.Close()
	waitUntil(bound, func() bool {
		for _, cl := range clients {
			if !cl.isEnded() {
				return false
			}
		}
		return true
	})
	safeSettle()
	after := snap()
	out := make([]Val, len(clients))
	for i, cl := range clients {
		ref := L()
		if cl.ref != nil {
			ref = cl.ref.val(true)
		}
		out[i] = L(cl.val(cl.isFLV()), ref, Bo(cl.isEnded()))
	}
	return L(L(out...), L(before, after), S(note))
}
