package transports

// RunC07: the C07 isolation replay with real viewers (add-only file of the C07 worker; it uses the
// package's clients and handshakes unchanged).  Same case and observation format as Run, but every
// client attaches before the first packet, the packets are published one at a time, and after each
// one the harness waits for exactly the clients that are owed it (a packet a transport cannot carry
// — e.g. 65508..65535 bytes on UDP — is owed to nobody on that transport), so a run with such
// packets costs no time-outs.  Two snapshots are returned: before and after the stream is closed.

import (
	"fmt"
	"time"

	. "vh/lib"

	"github.com/cnotch/ipchub/av/format/rtp"
	"github.com/cnotch/ipchub/media"
)

func RunC07(c Val) Val {
	start()
	refs, pkts, cls := c.At(0).Bool(), c.At(1).List(), c.At(2).List()
	media.UnregistAll()
	settle()
	var stream *media.Stream
	needMcast := false
	for _, cv := range cls {
		if cv.At(0).Int() == 6 {
			needMcast = true
		}
	}
	if needMcast {
		pub, err := publishViaSession()
		if pub != nil {
			defer pub.Close()
		}
		if err != nil {
			return L(S("!setup"), S(err.Error()))
		}
		stream = media.Get(streamPath)
	} else {
		stream = media.NewStream(streamPath, sdpText)
		media.Regist(stream)
	}
	if stream == nil {
		return L(S("!setup"), S("no stream"))
	}
	clients := make([]*client, len(cls))
	owed := make([]map[int]bool, len(cls))
	for i, cv := range cls {
		cl := &client{kind: cv.At(0).Int(), genEnd: -1}
		if len(pkts) > 0 && len(pkts[0].At(1).Bytes()) >= 12 {
			cl.nonce = pkts[0].At(1).Bytes()[8:12]
		}
		for k := 0; k < 4; k++ {
			cl.chmap[k] = cv.At(1).At(k).Int()
		}
		owed[i] = map[int]bool{}
		for _, d := range cv.At(2).List() {
			owed[i][int(d.Int())] = true
		}
		clients[i] = cl
	}
	defer func() {
		for _, cl := range clients {
			cl.cleanup()
		}
		media.UnregistAll()
		settle()
	}()
	for _, cl := range clients {
		if err := cl.attach(stream); err != nil {
			return L(S("!setup"), S(err.Error()))
		}
		cl.attached = true
		cl.stream = stream
		if refs && cl.isFLV() {
			cl.ref = &refConsumer{}
			cl.refCID = stream.StartConsume(cl.ref, media.FLVPacket, "verif-reference")
		}
		settle()
	}
	note := ""
	want := make([]int, len(clients))
	// events (0 n): the next n packets are published back to back (a burst fills the sessions' write buffers)
	groupEnd := map[int]bool{}
	pos := 0
	for _, e := range c.At(3).List() {
		if e.At(0).Int() == 0 {
			pos += int(e.At(1).Int())
			groupEnd[pos-1] = true
		}
	}
	for idx, p := range pkts {
		pk := &rtp.Packet{Channel: byte(p.At(0).Int()), Data: p.At(1).Bytes()}
		if pk.Channel == rtp.ChannelVideo || pk.Channel == rtp.ChannelAudio {
			if err := pk.Header.Unmarshal(pk.Data); err != nil {
				return L(S("!badcase"), S(err.Error()))
			}
		}
		stream.WriteRtpPacket(pk)
		for i, cl := range clients {
			if !cl.isFLV() && owed[i][idx] && cl.chmap[p.At(0).Int()] >= 0 {
				want[i]++
			}
		}
		if !groupEnd[idx] && idx < pos {
			continue // inside a burst
		}
		settle()
		for i, cl := range clients {
			if cl.isEnded() {
				continue
			}
			cl := cl
			if cl.isFLV() {
				if cl.kind == 5 && cl.ref != nil {
					waitUntil(2*time.Second, func() bool { return cl.count() >= cl.ref.count() })
				}
				continue
			}
			w := want[i]
			if cl.kind == 0 && cl.count() < w {
				settle()
				cl.request(fmt.Sprintf("OPTIONS rtsp://127.0.0.1:554%s RTSP/1.0\r\nCSeq: #\r\n\r\n", streamPath))
			}
			if !waitUntil(2*time.Second, func() bool { return cl.count() >= w || cl.isEnded() }) && note == "" {
				note = fmt.Sprintf("client %d: %d of %d messages after packet %d", i, cl.count(), w, idx)
			}
		}
	}
	settle()
	snap := func() Val {
		ended := make([]Val, len(clients))
		for i, cl := range clients {
			ended[i] = Bo(cl.isEnded())
		}
		return L(I(int64(stream.ConsumerCount())), I(0), I(0), I(0), L(ended...), I(0), L())
	}
	before := snap()
	stream.Close()
	waitUntil(3*time.Second, func() bool {
		for _, cl := range clients {
			if !cl.isEnded() {
				return false
			}
		}
		return true
	})
	settle()
	after := snap()
	out := make([]Val, len(clients))
	for i, cl := range clients {
		ref := L()
		if cl.ref != nil {
			ref = cl.ref.val(true)
		}
		out[i] = L(cl.val(cl.isFLV()), ref, Bo(cl.isEnded()))
	}
	return L(L(out...), L(before, after), S(note))
}
