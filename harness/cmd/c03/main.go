package main

import (
	. "vh/lib"
	"vh/lts"
	"vh/reghist"
	"vh/transports"
)

func main() {
	Main(map[string]func(Val) Val{"C03_lts": lts.Run, "C03_transports": transports.Run,
		"C03_reg": reghist.History}) // registry histories with the per-stream end vector (shared with cmd/c05)
}
