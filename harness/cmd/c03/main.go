package main

import (
	"vh/c03worker"
	. "vh/lib"
	"vh/lts"
	"vh/reghist"
	"vh/transports"
)

func main() {
	cmds := map[string]func(Val) Val{"C03_lts": lts.Run, "C03_transports": transports.Run, "C03_mcast": transports.RunMcast, "C03_faults": transports.RunFaults, "C03_source": transports.RunSource}
	for name, f := range c03worker.Commands() {
		cmds[name] = f
	}
	cmds["C03_reg"] = reghist.History // registry histories with the per-stream end vector (shared with cmd/c05)
	Main(cmds)
}
