package main

import (
	. "vh/lib"
	"vh/lts"
	"vh/transports"
)

func main() { Main(map[string]func(Val) Val{"C03_lts": lts.Run, "C03_transports": transports.Run}) }
