package main

import (
	"vh/c02classify"
	. "vh/lib"
	"vh/lts"
)

func main() {
	cmds := map[string]func(Val) Val{"C02_lts": lts.Run}
	for k, f := range c02classify.Commands() {
		cmds[k] = f
	}
	Main(cmds)
}
