// C11 harness: one in-process service per case (the production HTTP handler
// with its interceptors on an httptest server, the production RTSP accept
// handler on a loopback listener, authentication switched on) and scripted
// clients for every entry point: RTSP with digest, ws-rtsp, WSP control and data
// channel, HTTP-FLV, ws-FLV, HLS playlist and segment, /api/.  A case is a
// history of user saves / deletes, clock ticks, logins, refreshes and requests;
// the observation of every event is the status the client saw, whether media
// reached it, and the registry (who owns the stream of every watched path).
package main

import (
	"bufio"
	"bytes"
	"crypto/md5"
	"encoding/base64"
	"encoding/binary"
	"encoding/hex"
	"encoding/json"
	"fmt"
	"io"
	"io/ioutil"
	"net"
	"net/http"
	"net/http/httptest"
	"net/url"
	"regexp"
	"strconv"
	"strings"
	"sync/atomic"
	"time"

	. "vh/lib"

	"github.com/cnotch/ipchub/av/codec"
	"github.com/cnotch/ipchub/av/format/rtp"
	"github.com/cnotch/ipchub/config"
	"github.com/cnotch/ipchub/media"
	"github.com/cnotch/ipchub/provider/auth"
	"github.com/cnotch/ipchub/provider/security"
	"github.com/cnotch/ipchub/service"
	"github.com/cnotch/ipchub/service/rtsp"
	"github.com/cnotch/ipchub/utils"
	"github.com/cnotch/xlog"
	"github.com/gorilla/websocket"
)

var commands = map[string]func(Val) Val{}

func main() { Main(commands) }

const sdpHead = "v=0\r\no=- 0 0 IN IP4 127.0.0.1\r\ns=No Name\r\nc=IN IP4 127.0.0.1\r\nt=0 0\r\n"
const sdpVideo = "m=video 0 RTP/AVP 96\r\na=rtpmap:96 H264/90000\r\na=fmtp:96 packetization-mode=1; sprop-parameter-sets=Z2QAH6zZQFAFuhAAAAMAEAAAAwPI8YMZYA==,aO+8sA==; profile-level-id=64001F\r\n"
const sdpAudio = "m=audio 0 RTP/AVP 97\r\na=rtpmap:97 MPEG4-GENERIC/44100/2\r\na=fmtp:97 profile-level-id=1;mode=AAC-hbr;sizelength=13;indexlength=3;indexdeltalength=3; config=121056E500\r\n"
const sdpText = sdpHead + sdpVideo + "a=control:streamid=0\r\n" + sdpAudio + "a=control:streamid=1\r\n"
func sdpFor(path string) string { return strings.Replace(sdpText, "s=No Name", "s=stream "+path, 1) }

const realm = config.Name
const sentinelCSeq = "sentinel-7f3a"

// ---------------------------------------------------------------- server side
var (
	rtspL net.Listener
)

func startRTSP() {
	if rtspL != nil {
		return
	}
	xlog.ReplaceGlobal(xlog.New(xlog.NewNopCore()))
	config.VerifSetAuth(true)
	l, err := net.Listen("tcp", "127.0.0.1:0")
	if err != nil {
		panic(err)
	}
	rtspL = l
	handler := rtsp.CreateAcceptHandler()
	go func() {
		for {
			c, err := l.Accept()
			if err != nil {
				return
			}
			handler(c)
		}
	}()
}

// ---------------------------------------------------------------- the world of one case
type issued struct{ access, refresh string }

type conn struct {
	kind       int // 0 rtsp/tcp, 1 ws-rtsp, 2 wsp control, -1 never opened
	c          net.Conn
	br         *bufio.Reader
	ws         *websocket.Conn
	local      string
	dead       bool
	firstNonce string
	lastNonce  string
	channel    string
	data       *websocket.Conn
	cseq       int
	frames     int
	sid        string
	played     bool
	recorded   bool
	ssrc       int // low byte of the SSRC of the last interleaved RTP frame
}

type world struct {
	srv    *httptest.Server
	tm     *auth.TokenManager
	ext    map[string]*media.Stream
	tokens []issued
	conns  []*conn
	watch  []string
	socks  []io.Closer
	seq    uint16
	fts    int64
	base   uint64 // the id counter at the start of the case
}

func (w *world) close() {
	for _, c := range w.socks {
		c.Close()
	}
	media.UnregistAll()
	w.srv.CloseClientConnections()
	done := make(chan struct{})
	go func() { w.srv.Close(); close(done) }()
	select {
	case <-done:
	case <-time.After(2 * time.Second):
	}
}

func mkUser(v Val) *auth.User {
	return &auth.User{Name: v.At(0).Str(), Password: v.At(1).Str(), Admin: v.At(2).Bool(),
		PushAccess: v.At(3).Str(), PullAccess: v.At(4).Str()}
}

// every watched path's stream is fed packets carrying the path's position in the watch list as SSRC, and every
// pre-published stream announces its path as SDP session name: the client can tell whose media / description it got
func rtpPacket(seq uint16, idx int) *rtp.Packet {
	data := []byte{0x80, 96, byte(seq >> 8), byte(seq), 0, 0, 0, 1, 0x11, 0x22, 0x33, byte(idx),
		0x41, 0x9a, 0x24, 0x6c, 0x41, 0x4f, 0xfe, 0xd0, 0x10, 0x20, 0x30, 0x40}
	p := &rtp.Packet{Channel: byte(rtp.ChannelVideo), Data: data}
	if err := p.Header.Unmarshal(p.Data); err != nil {
		panic(err)
	}
	return p
}

// feed writes one RTP packet into every stream registered under a watched path
func (w *world) feed() {
	w.seq++
	_, infos := media.Infos("", 1000, false)
	for _, inf := range infos {
		idx := 0
		for i, p := range w.watch {
			if p == inf.Path {
				idx = i + 1
			}
		}
		if s := media.Get(inf.Path); s != nil {
			s.WriteRtpPacket(rtpPacket(w.seq, idx))
		}
	}
}

// primeHLS pushes key frames with synthetic time stamps until the playlist is servable
// srcMarker: every stream's frames carry the position of its path in the watch list, so that FLV tags and HLS
// segments tell whose media they are
func srcMarker(idx int) []byte { return append([]byte("C11SRC"), byte('A'+idx)) }

func primeHLS(s *media.Stream, idx int) bool {
	h := s.Hlsable()
	if h == nil {
		return false
	}
	idr := append([]byte{0x65, 0x88, 0x84, 0x00, 0x33, 0xff, 0xfe, 0xf6, 0xf0}, srcMarker(idx)...)
	for i := 0; i < 9; i++ {
		t := int64(i) * 6 * int64(time.Second)
		s.WriteFrame(&codec.Frame{MediaType: codec.MediaTypeVideo, Dts: t, Pts: t, Payload: idr})
	}
	stop := time.Now().Add(2 * time.Second)
	for time.Now().Before(stop) {
		if body, err := h.M3u8(""); err == nil {
			// the model knows which sequence numbers a primed playlist lists: 2, 3, 4
			// (the muxer works through the nine frames asynchronously: wait for its final state)
			m := segLine.FindAllStringSubmatch(string(body), -1)
			if len(m) == 3 && m[0][1] == "2" && m[1][1] == "3" && m[2][1] == "4" {
				return true
			}
		}
		time.Sleep(200 * time.Microsecond)
	}
	return false
}

func (w *world) registry() Val {
	out := make([]Val, 0, len(w.watch))
	for _, p := range w.watch {
		s := media.Get(p)
		k := int64(0)
		if s != nil {
			if s == w.ext[utils.CanonicalPath(p)] {
				k = 1
			} else {
				k = 99 // published by somebody we cannot identify
				addr := s.Attr("addr")
				// the publisher is known by its client address; two connections to the two listeners can
				// share an ephemeral port, so among equals the one that got a 200 for RECORD is meant
				for pass := 0; pass < 2 && k == 99; pass++ {
					for i, c := range w.conns {
						if c.local != "" && c.local == addr && (pass == 1 || c.recorded) {
							k = int64(2 + i)
							break
						}
					}
				}
			}
		}
		out = append(out, I(k))
	}
	return L(out...)
}

func (w *world) token(v Val) string {
	switch v.At(0).Int() {
	case 1:
		if k := int(v.At(1).Int()); k < len(w.tokens) {
			return w.tokens[k].access
		}
		return "no-such-token-a"
	case 2:
		if k := int(v.At(1).Int()); k < len(w.tokens) {
			return w.tokens[k].refresh
		}
		return "no-such-token-r"
	case 3:
		return v.At(1).Str()
	}
	return ""
}

// wirePath spells a (decoded) path for a request line: percent-escaped where it must be, and every other
// time a path has dot-dot segments they are written %2e%2e
func wirePath(p string) string {
	e := (&url.URL{Path: p}).EscapedPath()
	if strings.Contains(p, "/../") && len(p)%2 == 0 {
		e = strings.Replace(e, "/../", "/%2e%2e/", -1)
	}
	return e
}

func (w *world) url(path, tok string) string {
	u := w.srv.URL + wirePath(path)
	if tok != "" {
		u += "?token=" + url.QueryEscape(tok)
	}
	return u
}

var httpClient = &http.Client{Timeout: 5 * time.Second, Transport: &http.Transport{DisableKeepAlives: true},
	CheckRedirect: func(req *http.Request, via []*http.Request) error { return http.ErrUseLastResponse }}

func (w *world) tokenReply(resp *http.Response, err error) Val {
	if err != nil {
		return L(I(-1))
	}
	defer resp.Body.Close()
	if resp.StatusCode == 200 {
		var t struct {
			A string `json:"access_token"`
			R string `json:"refresh_token"`
		}
		body, _ := ioutil.ReadAll(resp.Body)
		if json.Unmarshal(body, &t) != nil || t.A == "" || t.R == "" {
			return L(I(-2))
		}
		w.tokens = append(w.tokens, issued{t.A, t.R})
	}
	return L(I(int64(resp.StatusCode)))
}

// sidCounter decodes the counter value a session id discloses (base64 of its uvarint)
func sidCounter(sid string) uint64 {
	raw, err := base64.RawURLEncoding.DecodeString(sid)
	if err != nil {
		return 0
	}
	n, l := binary.Uvarint(raw)
	if l <= 0 {
		return 0
	}
	return n
}

func (w *world) rel(n uint64) int64 {
	if n == 0 {
		return -1
	}
	return int64(n - w.base)
}

// ---------------------------------------------------------------- RTSP clients (tcp and ws-rtsp)
type response struct {
	code  int
	cseq  string
	nonce string
	sess  string
	body  string
}

func parseResponse(br *bufio.Reader) (*response, error) {
	line, err := br.ReadString('\n')
	if err != nil {
		return nil, err
	}
	r := &response{}
	parts := strings.SplitN(strings.TrimSpace(line), " ", 3)
	if len(parts) >= 2 {
		r.code, _ = strconv.Atoi(parts[1])
	}
	clen := 0
	for {
		h, err := br.ReadString('\n')
		if err != nil {
			return nil, err
		}
		h = strings.TrimRight(h, "\r\n")
		if h == "" {
			break
		}
		i := strings.IndexByte(h, ':')
		if i < 0 {
			continue
		}
		k, v := strings.ToLower(strings.TrimSpace(h[:i])), strings.TrimSpace(h[i+1:])
		switch k {
		case "cseq":
			r.cseq = v
		case "session":
			r.sess = v
		case "content-length":
			clen, _ = strconv.Atoi(v)
		case "www-authenticate":
			if j := strings.Index(v, `nonce="`); j >= 0 {
				rest := v[j+7:]
				if e := strings.IndexByte(rest, '"'); e >= 0 {
					r.nonce = rest[:e]
				}
			}
		}
	}
	if clen > 0 {
		b := make([]byte, clen)
		if _, err = io.ReadFull(br, b); err != nil {
			return nil, err
		}
		r.body = string(b)
	}
	return r, nil
}

// next reads one message: an interleaved frame (nil) or a response
func (c *conn) next(d time.Duration) (*response, error) {
	if c.kind == 1 {
		c.ws.SetReadDeadline(time.Now().Add(d))
		_, msg, err := c.ws.ReadMessage()
		if err != nil {
			return nil, err
		}
		if len(msg) > 0 && msg[0] == '$' {
			c.frames++
			if len(msg) >= 16 {
				c.ssrc = int(msg[15])
			}
			return nil, nil
		}
		return parseResponse(bufio.NewReader(bytes.NewReader(msg)))
	}
	c.c.SetReadDeadline(time.Now().Add(d))
	b, err := c.br.Peek(1)
	if err != nil {
		return nil, err
	}
	if b[0] == '$' {
		var h [4]byte
		if _, err = io.ReadFull(c.br, h[:]); err != nil {
			return nil, err
		}
		n := int(h[2])<<8 | int(h[3])
		fr := make([]byte, n)
		if _, err = io.ReadFull(c.br, fr); err != nil {
			return nil, err
		}
		c.frames++
		if n >= 12 {
			c.ssrc = int(fr[11])
		}
		return nil, nil
	}
	return parseResponse(c.br)
}

func (c *conn) send(text string) error {
	if c.kind == 1 {
		return c.ws.WriteMessage(websocket.BinaryMessage, []byte(text))
	}
	c.c.SetWriteDeadline(time.Now().Add(5 * time.Second))
	_, err := c.c.Write([]byte(text))
	return err
}

// exchange sends req followed by the sentinel OPTIONS and returns the responses seen before the sentinel's
func (c *conn) exchange(req string) []*response {
	var out []*response
	if c.dead {
		return nil
	}
	text := req + "OPTIONS * RTSP/1.0\r\nCSeq: " + sentinelCSeq + "\r\n\r\n"
	if c.kind == 1 {
		// one RTSP message per websocket message
		if req != "" {
			if c.send(req) != nil {
				c.dead = true
				return nil
			}
		}
		text = "OPTIONS * RTSP/1.0\r\nCSeq: " + sentinelCSeq + "\r\n\r\n"
	}
	if c.send(text) != nil {
		c.dead = true
		return nil
	}
	for {
		r, err := c.next(5 * time.Second)
		if err != nil {
			c.dead = true
			return out
		}
		if r == nil {
			continue
		}
		if r.sess != "" {
			c.sid = r.sess
		}
		if r.cseq == sentinelCSeq {
			return out
		}
		// a client learns the challenge from the answers to its own requests only
		if r.nonce != "" {
			if c.firstNonce == "" {
				c.firstNonce = r.nonce
			}
			c.lastNonce = r.nonce
		}
		out = append(out, r)
	}
}

func md5hex(s string) string {
	d := md5.Sum([]byte(s))
	return hex.EncodeToString(d[:])
}

var methodNames = map[int64]string{1: "DESCRIBE", 2: "ANNOUNCE", 3: "SETUP", 4: "SETUP", 5: "PLAY", 6: "RECORD"}

// method: 1 DESCRIBE 2 ANNOUNCE 3 SETUP(play) 4 SETUP(record) 5 PLAY 6 RECORD
func (c *conn) rtspRequest(m int64, path string, cred Val) string {
	name := methodNames[m]
	uri := "rtsp://127.0.0.1:554" + wirePath(path)
	if m == 3 || m == 4 {
		uri += "/streamid=0"
	}
	c.cseq++
	var sb strings.Builder
	fmt.Fprintf(&sb, "%s %s RTSP/1.0\r\nCSeq: %d\r\n", name, uri, c.cseq)
	if cred.At(0).Int() == 1 {
		user, secret := cred.At(1).Str(), cred.At(2).Str()
		if cred.At(3).Bool() {
			secret = md5hex(secret)
		}
		nonce := c.lastNonce
		switch cred.At(4).Int() {
		case 1:
			nonce = c.firstNonce
		case 2:
			nonce = "00000000000000000000000000000000"
		}
		dm, du := name, uri
		switch cred.At(5).Int() {
		case 1:
			dm = "OPTIONS"
		case 2:
			du = uri + "x"
		}
		resp := md5hex(md5hex(user+":"+realm+":"+secret) + ":" + nonce + ":" + md5hex(dm+":"+du))
		fmt.Fprintf(&sb, "Authorization: Digest username=\"%s\", realm=\"%s\", nonce=\"%s\", uri=\"%s\", response=\"%s\"\r\n",
			user, realm, nonce, uri, resp)
	}
	body := ""
	switch m {
	case 2:
		sb.WriteString("Content-Type: application/sdp\r\n")
		body = sdpText
	case 3:
		sb.WriteString("Transport: RTP/AVP/TCP;unicast;interleaved=0-1;mode=play\r\n")
	case 4:
		sb.WriteString("Transport: RTP/AVP/TCP;unicast;interleaved=0-1;mode=record\r\n")
	}
	if body != "" {
		fmt.Fprintf(&sb, "Content-Length: %d\r\n", len(body))
	}
	sb.WriteString("\r\n")
	sb.WriteString(body)
	return sb.String()
}

// mediaArrives feeds the watched streams and reports whether interleaved frames reach the connection
func (w *world) mediaArrives(c *conn, budget int) bool {
	before := c.frames
	for i := 0; i < budget && !c.dead; i++ {
		w.feed()
		c.exchange("")
		if c.frames > before {
			return true
		}
		time.Sleep(time.Millisecond)
	}
	return c.frames > before
}

func (w *world) rtspEvent(c *conn, m int64, path string, cred Val) Val {
	if c == nil || c.dead || c.kind < 0 || c.kind > 1 {
		return L(I(-1), I(0), w.registry(), I(0))
	}
	rs := c.exchange(c.rtspRequest(m, path, cred))
	code := int64(-1)
	if len(rs) == 1 {
		code = int64(rs[0].code)
	} else if len(rs) > 1 {
		code = -2
	}
	mediaSeen := false
	if m == 6 && code == 200 {
		c.recorded = true
	}
	if m == 5 {
		budget := 3
		if code == 200 {
			c.played = true
		}
		if c.played { // a session that has been playing may still be sending, whatever it answered now
			budget = 60
		}
		mediaSeen = w.mediaArrives(c, budget)
	}
	// whose description / media was it
	aux := int64(0)
	if m == 1 && code == 200 && len(rs) == 1 {
		aux = w.sdpOwner(rs[0].body)
	}
	if m == 5 && mediaSeen {
		aux = int64(c.ssrc)
	}
	return L(I(code), Bo(mediaSeen), w.registry(), I(aux))
}

// sdpOwner: the position in the watch list of the stream whose session name the description carries (0: none)
func (w *world) sdpOwner(body string) int64 {
	for _, line := range strings.Split(body, "\r\n") {
		if strings.HasPrefix(line, "s=stream ") {
			for i, p := range w.watch {
				if p == strings.TrimPrefix(line, "s=stream ") {
					return int64(i + 1)
				}
			}
		}
	}
	return 0
}

// ---------------------------------------------------------------- websocket entry points
// hdrsOf: request headers of the client's choosing, keys written on the wire exactly as given
func hdrsOf(v Val) http.Header {
	h := http.Header{}
	for _, kv := range v.List() {
		k := kv.At(0).Str()
		h[k] = append(h[k], kv.At(1).Str())
	}
	return h
}

func (w *world) dialWS(path, tok, proto string, hdr http.Header) (*websocket.Conn, int) {
	d := websocket.Dialer{HandshakeTimeout: 5 * time.Second}
	if proto != "" {
		d.Subprotocols = []string{proto}
	}
	u := "ws" + strings.TrimPrefix(w.url(path, tok), "http")
	ws, resp, err := d.Dial(u, hdr)
	if err != nil {
		if resp != nil {
			return nil, resp.StatusCode
		}
		return nil, -1
	}
	w.socks = append(w.socks, ws)
	return ws, 101
}

func wspExchange(ws *websocket.Conn, text string) (code int, hdr map[string]string, body string, err error) {
	if err = ws.WriteMessage(websocket.TextMessage, []byte(text)); err != nil {
		return
	}
	ws.SetReadDeadline(time.Now().Add(5 * time.Second))
	_, msg, err := ws.ReadMessage()
	if err != nil {
		return
	}
	s := string(msg)
	i := strings.Index(s, "\r\n\r\n")
	if i < 0 {
		return -3, nil, "", nil
	}
	head := strings.Split(s[:i], "\r\n")
	body = s[i+4:]
	f := strings.SplitN(head[0], " ", 3)
	if len(f) >= 2 {
		code, _ = strconv.Atoi(f[1])
	}
	hdr = map[string]string{}
	for _, h := range head[1:] {
		if j := strings.IndexByte(h, ':'); j >= 0 {
			hdr[strings.ToLower(strings.TrimSpace(h[:j]))] = strings.TrimSpace(h[j+1:])
		}
	}
	return
}

// ---------------------------------------------------------------- one case
type dataSock struct {
	ws     *websocket.Conn
	frames chan struct{}
	closed chan struct{}
	ssrc   int32 // low byte of the SSRC of the last RTP frame (atomic)
}

func pump(ws *websocket.Conn) *dataSock {
	d := &dataSock{ws: ws, frames: make(chan struct{}, 1024), closed: make(chan struct{})}
	go func() {
		defer close(d.closed)
		for {
			_, msg, err := ws.ReadMessage()
			if err != nil {
				return
			}
			if len(msg) >= 16 && msg[0] == '$' {
				atomic.StoreInt32(&d.ssrc, int32(msg[15]))
			}
			if len(msg) > 0 && (msg[0] == '$' || (len(msg) >= 3 && string(msg[:3]) == "FLV")) {
				select {
				case d.frames <- struct{}{}:
				default:
				}
			}
		}
	}()
	return d
}

func (w *world) arrivesOn(d *dataSock, budget int) bool {
	if d == nil {
		return false
	}
	for len(d.frames) > 0 {
		<-d.frames
	}
	for i := 0; i < budget; i++ {
		w.feed()
		select {
		case <-d.frames:
			return true
		case <-d.closed:
			select {
			case <-d.frames:
				return true
			default:
				return false
			}
		case <-time.After(time.Millisecond):
		}
	}
	return false
}

func runCase(c Val) Val {
	startRTSP()
	env, events := c.At(0), c.At(1).List()

	var users []*auth.User
	for _, u := range env.At(0).List() {
		users = append(users, mkUser(u))
	}
	auth.VerifResetUsers(users)
	media.UnregistAll()
	media.VerifResetRegistry()
	handler, tm := service.VerifNewHTTP()
	w := &world{srv: httptest.NewServer(handler), tm: tm, ext: map[string]*media.Stream{}, base: uint64(security.NewID())}
	defer w.close()
	for _, p := range env.At(1).List() {
		path := p.Str()
		s := media.NewStream(path, sdpFor(path))
		media.Regist(s)
		if media.Get(path) != s {
			return L(S("!setup"), S("stream not registered at "+path))
		}
		idx := 0
		for i, q := range env.At(2).List() {
			if q.Str() == path {
				idx = i + 1
			}
		}
		if !primeHLS(s, idx) {
			return L(S("!setup"), S("no playlist for "+path))
		}
		w.ext[path] = s
	}
	for _, p := range env.At(2).List() {
		w.watch = append(w.watch, p.Str())
	}
	datas := map[*conn]*dataSock{}

	out := make([]Val, 0, len(events))
	for _, e := range events {
		var o Val
		switch e.At(0).Int() {
		case 0: // save (as the administrator's console does: auth.Save)
			err := auth.Save(mkUser(L(e.At(1), e.At(2), e.At(3), e.At(4), e.At(5))), e.At(6).Bool())
			o = L(Bo(err != nil))
		case 1:
			err := auth.Del(e.At(1).Str())
			o = L(Bo(err != nil))
		case 2:
			auth.VerifAge(w.tm, e.At(1).Int())
			o = L(I(0))
		case 3: // login
			body, _ := json.Marshal(map[string]string{"username": e.At(1).Str(), "password": e.At(2).Str()})
			resp, err := httpClient.Post(w.url("/api/v1/login", ""), "application/json", bytes.NewReader(body))
			o = w.tokenReply(resp, err)
		case 4: // refresh
			resp, err := httpClient.Get(w.url("/api/v1/refreshtoken", w.token(e.At(1))))
			o = w.tokenReply(resp, err)
		case 5: // open a plain RTSP connection
			nc, err := net.Dial("tcp", rtspL.Addr().String())
			if err != nil {
				return L(S("!setup"), S(err.Error()))
			}
			w.socks = append(w.socks, nc)
			cn := &conn{kind: 0, c: nc, br: bufio.NewReader(nc), local: nc.LocalAddr().String()}
			w.conns = append(w.conns, cn)
			cn.exchange("OPTIONS * RTSP/1.0\r\nCSeq: 0\r\n\r\n") // the reply to OPTIONS carries the challenge
			o = L(I(w.rel(sidCounter(cn.sid))))
		case 6: // RTSP request on connection k
			var cn *conn
			if k := int(e.At(1).Int()); k < len(w.conns) && w.conns[k].kind == 0 {
				cn = w.conns[k]
			}
			o = w.rtspEvent(cn, e.At(2).Int(), e.At(3).Str(), e.At(4))
		case 7: // websocket upgrade: kind 0 rtsp, 1 control, 2 data, 3 flv
			kind, path, tok := e.At(1).Int(), e.At(2).Str(), w.token(e.At(3))
			hdr := hdrsOf(e.At(5))
			switch kind {
			case 0:
				ws, code := w.dialWS("/streams"+path, tok, "rtsp", hdr)
				cn := &conn{kind: -1}
				if ws != nil {
					cn = &conn{kind: 1, ws: ws, local: ws.LocalAddr().String()}
				}
				w.conns = append(w.conns, cn)
				id := int64(0)
				if ws != nil {
					cn.exchange("")
					id = w.rel(sidCounter(cn.sid))
				}
				o = L(I(int64(code)), I(0), I(0), I(id))
			case 1:
				ws, code := w.dialWS("/streams"+path, tok, "control", hdr)
				cn := &conn{kind: -1}
				init := int64(0)
				if ws != nil {
					wc, hdr, _, err := wspExchange(ws, "WSP/1.1 INIT\r\nproto: rtsp\r\nhost: 127.0.0.1\r\nport: 554\r\nseq: 1\r\n\r\n")
					if err == nil && wc == 200 && hdr["channel"] != "" {
						cn = &conn{kind: 2, ws: ws, channel: hdr["channel"], local: ws.LocalAddr().String()}
						// the server answers INIT first and only then creates the session (which draws the session
						// id from the process-wide counter) and registers it.  Which ids later connections get, and
						// whether an immediate JOIN finds the channel, would depend on that race; the property says
						// nothing about it.  A wrapped OPTIONS is answered by the session itself: once the answer
						// is here the session exists, has its id and is registered.
						wspExchange(ws, fmt.Sprintf("WSP/1.1 WRAP\r\nchannel: %s\r\nseq: 2\r\n\r\nOPTIONS * RTSP/1.0\r\nCSeq: 0\r\n\r\n", cn.channel))
					}
					init = int64(wc)
				}
				w.conns = append(w.conns, cn)
				id := int64(0)
				if cn.kind == 2 {
					n, _ := strconv.ParseUint(cn.channel, 10, 64)
					id = w.rel(n)
				}
				o = L(I(int64(code)), I(init), I(0), I(id))
			case 2:
				ws, code := w.dialWS("/streams"+path, tok, "data", hdr)
				join, mediaSeen := int64(0), false
				if ws != nil {
					channel := "999999999999"
					var owner *conn
					if k := int(e.At(4).Int()); k >= 0 && k < len(w.conns) && w.conns[k].kind == 2 {
						owner = w.conns[k]
						channel = owner.channel
					}
					wc, _, _, err := wspExchange(ws, "WSP/1.1 JOIN\r\nchannel: "+channel+"\r\nseq: 1\r\n\r\n")
					if err != nil {
						wc = -1
					}
					if wc == 404 && owner != nil {
						// the server answers INIT before it registers the session: a join that overtakes the
						// registration is told 404.  Ask once more after a pause; a refusal stays a refusal.
						time.Sleep(25 * time.Millisecond)
						if ws2, code2 := w.dialWS("/streams"+path, tok, "data", hdr); ws2 != nil && code2 == 101 {
							if wc2, _, _, err2 := wspExchange(ws2, "WSP/1.1 JOIN\r\nchannel: "+channel+"\r\nseq: 1\r\n\r\n"); err2 == nil {
								ws, wc = ws2, wc2
							}
						}
					}
					join = int64(wc)
					d := pump(ws)
					if wc == 200 && owner != nil {
						time.Sleep(2 * time.Millisecond) // setDataChannel runs after the reply is written
						datas[owner] = d
					}
					budget := 3
					if wc == 200 {
						budget = 40
					}
					mediaSeen = w.arrivesOn(d, budget)
				}
				o = L(I(int64(code)), I(join), Bo(mediaSeen), I(0))
			default:
				ws, code := w.dialWS("/streams"+path+".flv", tok, "", hdr)
				mediaSeen := false
				if ws != nil {
					d := pump(ws)
					select {
					case <-d.frames:
						mediaSeen = true
					case <-d.closed:
						select {
						case <-d.frames:
							mediaSeen = true
						default:
						}
					case <-time.After(2 * time.Second):
					}
				}
				o = L(I(int64(code)), I(0), Bo(mediaSeen), I(0))
			}
		case 8: // ws-rtsp request on connection k (no credentials: the upgrade was authenticated)
			var cn *conn
			if k := int(e.At(1).Int()); k < len(w.conns) {
				cn = w.conns[k]
			}
			if cn != nil && cn.kind != 1 {
				cn = nil
			}
			o = w.rtspEvent(cn, e.At(2).Int(), e.At(3).Str(), L(I(0)))
		case 9: // WSP WRAP request on control connection k
			var cn *conn
			if k := int(e.At(1).Int()); k < len(w.conns) && w.conns[k].kind == 2 {
				cn = w.conns[k]
			}
			if cn == nil || cn.dead {
				o = L(I(-1), I(0), I(0))
				break
			}
			m := e.At(2).Int()
			req := cn.rtspRequest(m, e.At(3).Str(), L(I(0)))
			wc, _, body, err := wspExchange(cn.ws, fmt.Sprintf("WSP/1.1 WRAP\r\nchannel: %s\r\nseq: %d\r\n\r\n%s", cn.channel, cn.cseq+1, req))
			code := int64(-1)
			aux := int64(0) // whose description / media it was
			if err != nil {
				cn.dead = true
			} else if wc == 200 {
				if r, perr := parseResponse(bufio.NewReader(strings.NewReader(body))); perr == nil {
					code = int64(r.code)
					if m == 1 && code == 200 {
						aux = w.sdpOwner(r.body)
					}
				}
			}
			mediaSeen := false
			if m == 5 {
				budget := 3
				if code == 200 {
					cn.played = true
				}
				if cn.played && datas[cn] != nil {
					budget = 40
				}
				mediaSeen = w.arrivesOn(datas[cn], budget)
				if mediaSeen {
					aux = int64(atomic.LoadInt32(&datas[cn].ssrc))
				}
			}
			o = L(I(code), Bo(mediaSeen), I(aux))
		case 10: // HTTP: kind 0 flv, 1 m3u8, 2 ts
			kind, path, tok := e.At(1).Int(), e.At(2).Str(), w.token(e.At(3))
			if s := media.Get(path); kind == 1 && s != nil && s != w.ext[utils.CanonicalPath(path)] {
				o = L(S("!skipped"), S("playlist of a stream published a moment ago: GetM3u8 waits 22 s"))
				break
			}
			var u string
			switch kind {
			case 0:
				u = w.url("/streams"+path+".flv", tok)
			case 1:
				u = w.url("/streams"+path+".m3u8", tok)
			default:
				u = w.url("/streams"+path+"/"+strconv.FormatInt(w.segmentNo(path, e.At(4).Int()), 10)+".ts", tok)
			}
			o = w.httpGet(u, kind, hdrsOf(e.At(5)))
		case 11: // API
			o = w.api(e)
		case 12: // GET of an arbitrary URL path under /streams/ : ( status, something served, whose, what kind )
			if lu := strings.ToLower(e.At(1).Str()); strings.HasSuffix(lu, ".m3u8") && strings.HasPrefix(lu, "/streams/") {
				sp := lu[len("/streams") : len(lu)-len(".m3u8")]
				if s := media.Get(sp); s != nil && s != w.ext[utils.CanonicalPath(sp)] {
					o = L(S("!skipped"), S("playlist of a stream published a moment ago: GetM3u8 waits 22 s"))
					break
				}
			}
			status, kind, src := w.httpFetch(w.url(e.At(1).Str(), w.token(e.At(2))), hdrsOf(e.At(3)))
			o = L(I(int64(status)), Bo(kind != 0), I(src), I(kind))
		default:
			o = L(S("!badcase"))
		}
		out = append(out, o)
	}
	return L(out...)
}

// bigFrame: an IDR picture large enough to push the FLV response through net/http's 4 KiB write buffer
func bigFrame(idx int) []byte {
	f := append([]byte{0x65, 0x88, 0x84, 0x00}, srcMarker(idx)...)
	return append(f, bytes.Repeat([]byte{0x5a}, 6000)...)
}

func (w *world) feedFrames() {
	w.fts += int64(40 * time.Millisecond)
	// every registered stream, also one a session published under a path nobody watches (marker 0)
	_, infos := media.Infos("", 1000, false)
	for _, inf := range infos {
		idx := 0
		for i, p := range w.watch {
			if p == inf.Path {
				idx = i + 1
			}
		}
		if s := media.Get(inf.Path); s != nil {
			s.WriteFrame(&codec.Frame{MediaType: codec.MediaTypeVideo, Dts: w.fts, Pts: w.fts, Payload: bigFrame(idx)})
		}
	}
}

var segLine = regexp.MustCompile(`/(\d+)\.ts`)

// httpFetch performs the GET and looks at what came back: the status, what kind of thing the body is
// (1 FLV, 2 playlist, 3 transport stream; 0 nothing) and whose it is (position of the stream in the watch list,
// from the marker in FLV tags / segments or from the segment URIs of a playlist; 0 unknown)
func (w *world) httpFetch(u string, hdr http.Header) (status int, kind int64, src int64) {
	type result struct {
		status int
		kind   int64
		body   []byte
		err    error
	}
	ch := make(chan result, 1)
	go func() {
		req, _ := http.NewRequest("GET", u, nil)
		for k, vs := range hdr {
			req.Header[k] = vs
		}
		resp, err := httpClient.Do(req)
		if err != nil {
			ch <- result{err: err}
			return
		}
		defer resp.Body.Close()
		r := result{status: resp.StatusCode}
		if resp.StatusCode == 200 {
			head := make([]byte, 7)
			n, _ := io.ReadFull(resp.Body, head[:3])
			if n == 3 && string(head[:3]) == "FLV" {
				// an endless body: read until the first tag that names its stream has passed
				r.kind = 1
				buf := make([]byte, 0, 1<<16)
				chunk := make([]byte, 4096)
				for len(buf) < 1<<19 {
					if i := bytes.Index(buf, []byte("C11SRC")); i >= 0 && i+6 < len(buf) {
						break
					}
					m, err := resp.Body.Read(chunk)
					buf = append(buf, chunk[:m]...)
					if err != nil {
						break
					}
				}
				r.body = buf
			} else {
				rest, _ := ioutil.ReadAll(io.LimitReader(resp.Body, 1<<21))
				r.body = append(head[:n], rest...)
				if bytes.HasPrefix(r.body, []byte("#EXTM3U")) {
					r.kind = 2
				} else if len(r.body) > 0 && r.body[0] == 0x47 {
					r.kind = 3
				}
			}
		}
		ch <- r
	}()
	var r result
	got := false
	for i := 0; i < 4000 && !got; i++ {
		select {
		case r = <-ch:
			got = true
		case <-time.After(time.Millisecond):
			w.feedFrames() // FLV: the response head leaves the server with the first tags
		}
	}
	if !got {
		r = <-ch
	}
	if r.err != nil {
		return -1, 0, 0
	}
	switch r.kind {
	case 1, 3:
		if i := bytes.Index(r.body, []byte("C11SRC")); i >= 0 && i+6 < len(r.body) {
			src = int64(r.body[i+6] - 'A')
		}
	case 2:
		if m := regexp.MustCompile(`/streams(/[^\s?]*)/\d+\.ts`).FindSubmatch(r.body); m != nil {
			for i, p := range w.watch {
				if p == string(m[1]) {
					src = int64(i + 1)
				}
			}
		}
	}
	return r.status, r.kind, src
}

func (w *world) httpGet(u string, kind int64, hdr http.Header) Val {
	status, got, src := w.httpFetch(u, hdr)
	return L(I(int64(status)), Bo(got == kind+1), I(src))
}

// segmentNo: the k-th sequence number the stream's playlist lists (k < 3), else k itself (no such segment)
func (w *world) segmentNo(path string, k int64) int64 {
	if s := w.ext[utils.CanonicalPath(path)]; s != nil && k < 3 {
		if h := s.Hlsable(); h != nil {
			if body, err := h.M3u8(""); err == nil {
				m := segLine.FindAllStringSubmatch(string(body), -1)
				if int(k) < len(m) {
					n, _ := strconv.ParseInt(m[k][1], 10, 64)
					return n
				}
			}
		}
	}
	return k
}

// API endpoints: 0 GET streams, 1 GET users, 2 POST users (save), 3 DELETE users/{name}, 4 DELETE streams/{path}
// (a path nobody publishes), 5 GET routes, 6 GET streams/{path}, 7 GET server (no token needed), 8 GET users/{name}
func (w *world) api(e Val) Val {
	ep, tok := e.At(1).Int(), w.token(e.At(2))
	method, path := "GET", ""
	var body io.Reader
	switch ep {
	case 0:
		path = "/api/v1/streams"
	case 1:
		path = "/api/v1/users"
	case 2:
		method, path = "POST", "/api/v1/users"
		u := e.At(3)
		b, _ := json.Marshal(map[string]interface{}{"name": u.At(0).Str(), "password": u.At(1).Str(),
			"admin": u.At(2).Bool(), "push": u.At(3).Str(), "pull": u.At(4).Str()})
		body = bytes.NewReader(b)
	case 3:
		method, path = "DELETE", "/api/v1/users/"+e.At(5).Str()
	case 4:
		method, path = "DELETE", "/api/v1/streams/no/such/stream"
	case 5:
		path = "/api/v1/routes"
	case 6:
		path = "/api/v1/streams" + e.At(5).Str()
	case 7:
		path = "/api/v1/server"
	default:
		path = "/api/v1/users/" + e.At(5).Str()
	}
	u := w.url(path, tok)
	if ep == 2 && e.At(4).Bool() {
		if tok != "" {
			u += "&update_password=1"
		} else {
			u += "?update_password=1"
		}
	}
	req, _ := http.NewRequest(method, u, body)
	for k, vs := range hdrsOf(e.At(6)) {
		req.Header[k] = vs
	}
	resp, err := httpClient.Do(req)
	if err != nil {
		return L(I(-1))
	}
	defer resp.Body.Close()
	io.Copy(io.Discard, resp.Body)
	code := int64(resp.StatusCode)
	if code != 401 && code != 403 {
		code = 2 // past the interceptors; what the handler then answers is not an authorization matter
	}
	return L(I(code))
}

// ---------------------------------------------------------------- D24: token prediction from a disclosed session id
// The witness function: decode the counter from a session id (base64 of its uvarint) and hash its successors.
func predictFromSession(sid string, k uint64) string {
	raw, err := base64.RawURLEncoding.DecodeString(sid)
	if err != nil {
		return ""
	}
	n, l := binary.Uvarint(raw)
	if l <= 0 {
		return ""
	}
	return security.ID(n + k).MD5()
}

func init() {
	commands["C11"] = runCase

	// (burn) : an unauthenticated client opens an RTSP connection, reads the Session header, somebody logs in
	// `burn` ids later; answer ( predicted ) = 1 when one of MD5(varint(counter+k)), k<=burn+8, is the access
	// or refresh token just issued.
	commands["predict"] = func(c Val) Val {
		startRTSP()
		auth.VerifResetUsers([]*auth.User{{Name: "admin", Password: "admin", Admin: true}})
		handler, _ := service.VerifNewHTTP()
		srv := httptest.NewServer(handler)
		defer srv.Close()
		nc, err := net.Dial("tcp", rtspL.Addr().String())
		if err != nil {
			return L(S("!setup"))
		}
		defer nc.Close()
		cn := &conn{kind: 0, c: nc, br: bufio.NewReader(nc)}
		cn.send("OPTIONS * RTSP/1.0\r\nCSeq: 1\r\n\r\n")
		r, err := cn.next(5 * time.Second)
		if err != nil || r == nil || r.sess == "" {
			return L(S("!setup"))
		}
		burn := uint64(c.At(0).Int())
		for i := uint64(0); i < burn; i++ {
			security.NewID()
		}
		body, _ := json.Marshal(map[string]string{"username": "admin", "password": "admin"})
		resp, err := httpClient.Post(srv.URL+"/api/v1/login", "application/json", bytes.NewReader(body))
		if err != nil || resp.StatusCode != 200 {
			return L(S("!setup"))
		}
		defer resp.Body.Close()
		var t struct {
			A string `json:"access_token"`
			R string `json:"refresh_token"`
		}
		raw, _ := ioutil.ReadAll(resp.Body)
		json.Unmarshal(raw, &t)
		hit := false
		for k := uint64(1); k <= burn+8; k++ {
			p := predictFromSession(r.sess, k)
			if p != "" && (p == t.A || p == t.R) {
				hit = true
			}
		}
		// the access token must work, otherwise the probe proves nothing
		chk, err := httpClient.Get(srv.URL + "/api/v1/users?token=" + t.A)
		works := err == nil && chk.StatusCode == 200
		if chk != nil {
			chk.Body.Close()
		}
		return L(Bo(hit), Bo(works), Bo(len(t.A) >= 32 && len(t.R) >= 32 && t.A != t.R))
	}
}
