package main

import (
	"math"

	. "vh/lib"

	"github.com/cnotch/ipchub/av/codec"
	"github.com/cnotch/ipchub/av/codec/aac"
	"github.com/cnotch/ipchub/av/codec/h264"
	"github.com/cnotch/ipchub/av/codec/hevc"
	"github.com/cnotch/ipchub/utils"
	"github.com/cnotch/ipchub/utils/bits"
)

var commands = map[string]func(Val) Val{}

func main() { Main(commands) }

// IEEE-754 bits; every NaN is reported as one pattern
func f64bits(f float64) Val {
	if math.IsNaN(f) {
		return U(0x7FF8000000000000)
	}
	return U(math.Float64bits(f))
}

func vobs(err error, w, h int, fps float64, fixed bool) Val {
	if err != nil {
		return L(I(0))
	}
	return L(I(1), I(int64(w)), I(int64(h)), f64bits(fps), Bo(fixed))
}

func h264Decode(data []byte) Val {
	var sps h264.RawSPS
	// Decode must not modify its input
	in := append([]byte{}, data...)
	err := sps.Decode(in)
	return vobs(err, sps.Width(), sps.Height(), sps.FrameRate(), sps.IsFixedFrameRate())
}

func ascDecode(data []byte) Val {
	var asc aac.AudioSpecificConfig
	in := append([]byte{}, data...)
	if err := asc.Decode(in); err != nil {
		return L(I(0))
	}
	rate := asc.SampleRate
	if asc.ExtSampleRate > 0 {
		rate = asc.ExtSampleRate
	}
	// the same through the stream-metadata shortcut
	am := codec.AudioMeta{Sps: in}
	if !aac.MetadataIsReady(&am) || am.SampleRate != rate || am.Channels != int(asc.Channels) {
		return L(I(2), I(int64(am.SampleRate)), I(int64(am.Channels)))
	}
	return L(I(1), I(int64(rate)), I(int64(asc.Channels)))
}

func h265Decode(data []byte) Val {
	var sps hevc.H265RawSPS
	in := append([]byte{}, data...)
	err := sps.Decode(in)
	if err != nil {
		return L(I(0))
	}
	return vobs(nil, sps.Width(), sps.Height(), sps.FrameRate(), sps.IsFixedFrameRate())
}

func vpsDecode(data []byte) Val {
	var vps hevc.H265RawVPS
	in := append([]byte{}, data...)
	if err := vps.Decode(in); err != nil {
		return L(I(0))
	}
	return L(I(1), I(int64(vps.Vps_max_sub_layers_minus1)), U(uint64(vps.Vps_num_units_in_tick)), U(uint64(vps.Vps_time_scale)))
}

func init() {
	commands["h265"] = func(c Val) Val { return h265Decode(c.At(1).Bytes()) }
	commands["h265b"] = func(c Val) Val { return h265Decode(c.Bytes()) }
	commands["vps"] = func(c Val) Val { return vpsDecode(c.At(1).Bytes()) }
	commands["vpsb"] = func(c Val) Val { return vpsDecode(c.Bytes()) }
	commands["asc"] = func(c Val) Val { return ascDecode(c.At(1).Bytes()) }
	commands["ascb"] = func(c Val) Val { return ascDecode(c.Bytes()) }
	commands["h264"] = func(c Val) Val { return h264Decode(c.At(1).Bytes()) }
	commands["h264b"] = func(c Val) Val { return h264Decode(c.Bytes()) }
	commands["unescape"] = func(c Val) Val {
		return B(utils.RemoveH264or5EmulationBytes(append([]byte{}, c.Bytes()...)))
	}
	commands["f64div"] = func(c Val) Val {
		return f64bits(float64(uint32(c.At(0).Int())) / float64(uint32(c.At(1).Int())))
	}
	commands["reader"] = func(c Val) Val {
		r := bits.NewReader(c.At(0).Bytes())
		out := []Val{}
		func() {
			defer func() {
				if recover() != nil {
					out = append(out, L())
				}
			}()
			for _, op := range c.At(1).List() {
				switch op.At(0).Int() {
				case 0:
					out = append(out, U(uint64(r.Read(int(op.At(1).Int())))))
				case 1:
					out = append(out, U(uint64(r.ReadUe())))
				case 2:
					out = append(out, I(int64(r.ReadSe())))
				default:
					r.Skip(int(op.At(1).Int()))
					out = append(out, I(0))
				}
			}
		}()
		return L(out...)
	}
}
