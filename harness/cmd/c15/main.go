package main

import (
	"bytes"
	"encoding/base64"
	"encoding/hex"
	"math"

	. "vh/lib"

	"github.com/cnotch/ipchub/av/codec"
	"github.com/cnotch/ipchub/av/codec/aac"
	"github.com/cnotch/ipchub/av/codec/h264"
	"github.com/cnotch/ipchub/av/codec/hevc"
	"github.com/cnotch/ipchub/av/format/sdp"
	"github.com/cnotch/ipchub/media"
	"github.com/cnotch/ipchub/utils"
	"github.com/cnotch/ipchub/utils/bits"
)

var commands = map[string]func(Val) Val{}

func main() { Main(commands) }

// IEEE-754 bits; every NaN is reported as one pattern
func f64bits(f float64) Val {
	if math.IsNaN(f) {
		return U(0x7FF8000000000000)
	}
	return U(math.Float64bits(f))
}

func vobs(err error, w, h int, fps float64, fixed bool) Val {
	if err != nil {
		return L(I(0))
	}
	return L(I(1), I(int64(w)), I(int64(h)), f64bits(fps), Bo(fixed))
}

// ---- purity: every parser entry point gets the case's bytes inside one long-lived backing array
// (consecutive cases reuse the same memory, as a stream reuses its packet buffers), followed by
// 8 guard bytes within the slice's capacity.  Observed: first result, the whole backing array
// after both calls, second result (the second call goes through the MetadataIsReady shortcut,
// which parses the stream's stored parameter set).
const guardN = 8

var arena = make([]byte, 1<<20)

func guarded(data []byte) []byte {
	if len(data)+guardN > len(arena) {
		arena = make([]byte, 2*(len(data)+guardN))
	}
	n := copy(arena, data)
	for i := n; i < n+guardN; i++ {
		arena[i] = 0xA5
	}
	return arena[:n : n+guardN]
}

func twice(data []byte, first, second func(buf []byte) Val) Val {
	buf := guarded(data)
	o1 := first(buf)
	o2 := second(buf)
	whole := append([]byte{}, buf[:cap(buf)]...)
	return L(o1, B(whole), o2)
}

func videoMetaObs(ready bool, v *codec.VideoMeta) Val {
	if !ready {
		return L(I(0))
	}
	return L(I(1), I(int64(v.Width)), I(int64(v.Height)), f64bits(v.FrameRate), Bo(v.FixedFrameRate))
}

func h264Decode(data []byte) Val {
	return twice(data,
		func(buf []byte) Val {
			var sps h264.RawSPS
			err := sps.Decode(buf)
			return vobs(err, sps.Width(), sps.Height(), sps.FrameRate(), sps.IsFixedFrameRate())
		},
		func(buf []byte) Val {
			if len(buf) == 0 { // MetadataIsReady refuses an empty parameter set before parsing
				return L(I(0))
			}
			vm := codec.VideoMeta{Sps: buf, Pps: dummyPps}
			return videoMetaObs(h264.MetadataIsReady(&vm), &vm)
		})
}

func ascObs(asc *aac.AudioSpecificConfig, err error) Val {
	if err != nil {
		return L(I(0))
	}
	rate := asc.SampleRate
	if asc.ExtSampleRate > 0 {
		rate = asc.ExtSampleRate
	}
	return L(I(1), I(int64(rate)), I(int64(asc.Channels)))
}

func ascDecode(data []byte) Val {
	return twice(data,
		func(buf []byte) Val {
			var asc aac.AudioSpecificConfig
			err := asc.Decode(buf)
			return ascObs(&asc, err)
		},
		func(buf []byte) Val {
			if len(buf) == 0 { // MetadataIsReady refuses an empty config before parsing
				var asc aac.AudioSpecificConfig
				return ascObs(&asc, asc.Decode(buf))
			}
			am := codec.AudioMeta{Sps: buf}
			if !aac.MetadataIsReady(&am) {
				return L(I(0))
			}
			return L(I(1), I(int64(am.SampleRate)), I(int64(am.Channels)))
		})
}

func h265Decode(data []byte) Val {
	return twice(data,
		func(buf []byte) Val {
			var sps hevc.H265RawSPS
			if err := sps.Decode(buf); err != nil {
				return L(I(0))
			}
			return vobs(nil, sps.Width(), sps.Height(), sps.FrameRate(), sps.IsFixedFrameRate())
		},
		func(buf []byte) Val {
			if len(buf) == 0 {
				return L(I(0))
			}
			vm := codec.VideoMeta{Vps: dummyVps265, Sps: buf, Pps: dummyPps265}
			return videoMetaObs(hevc.MetadataIsReady(&vm), &vm)
		})
}

func vpsDecode(data []byte) Val {
	one := func(buf []byte) Val {
		var vps hevc.H265RawVPS
		if err := vps.Decode(buf); err != nil {
			return L(I(0))
		}
		return L(I(1), I(int64(vps.Vps_max_sub_layers_minus1)), U(uint64(vps.Vps_num_units_in_tick)), U(uint64(vps.Vps_time_scale)))
	}
	return twice(data, one, one)
}

const sdpHead = "v=0\r\no=- 0 0 IN IP4 127.0.0.1\r\ns=c15\r\nc=IN IP4 0.0.0.0\r\nt=0 0\r\n"

var dummyPps = []byte{0x68, 0xce, 0x38, 0x80}
var dummyPps265 = []byte{0x44, 0x01, 0xc1, 0x72, 0xb4, 0x62, 0x40}
var dummyVps265 = []byte{0x40, 0x01, 0x0c, 0x01, 0xff, 0xff, 0x01, 0x60, 0x00, 0x00, 0x03, 0x00, 0x90, 0x00, 0x00, 0x03, 0x00, 0x00, 0x03, 0x00, 0x5d, 0x95, 0x98, 0x09}

func videoSdp(kind int64, nal []byte) string {
	b64 := base64.StdEncoding.EncodeToString
	if kind == 264 {
		return sdpHead + "m=video 0 RTP/AVP 96\r\na=rtpmap:96 H264/90000\r\n" +
			"a=fmtp:96 packetization-mode=1;sprop-parameter-sets=" + b64(nal) + "," + b64(dummyPps) + ";profile-level-id=64001f\r\na=control:streamid=0\r\n"
	}
	return sdpHead + "m=video 0 RTP/AVP 96\r\na=rtpmap:96 H265/90000\r\n" +
		"a=fmtp:96 sprop-vps=" + b64(dummyVps265) + ";sprop-sps=" + b64(nal) + ";sprop-pps=" + b64(dummyPps265) + "\r\na=control:streamid=0\r\n"
}

func videoObs(v *codec.VideoMeta) Val {
	if v.Width == 0 { // MetadataIsReady leaves the metadata empty when the SPS does not decode
		return L(I(0))
	}
	return L(I(1), I(int64(v.Width)), I(int64(v.Height)), f64bits(v.FrameRate), Bo(v.FixedFrameRate))
}

// the SPS inside a generated SDP through sdp.ParseMetadata and media.NewStream; both must agree
func sdpVideo(kind int64, nal []byte) Val {
	raw := videoSdp(kind, nal)
	var v codec.VideoMeta
	var a codec.AudioMeta
	if err := sdp.ParseMetadata(raw, &v, &a); err != nil {
		return L(I(3))
	}
	s := media.NewStream("/c15/glue", raw)
	o1, o2 := videoObs(&v), videoObs(&s.Video)
	stored := [][]byte{v.Sps, s.Video.Sps}
	s.Close()
	if o1.String() != o2.String() {
		return L(I(4), o1, o2)
	}
	// the stored parameter sets are what every later consumer (muxers, late joiners) is given: both
	// entry points must store the same bytes; what they must be (the bytes sent, minus an Annex-B
	// start code that the SDP code strips) is decided by the oracle, which gets them
	if !bytes.Equal(stored[0], stored[1]) {
		return L(I(7), B(stored[0]), B(stored[1]))
	}
	if kind == 265 && (!bytes.Equal(v.Vps, dummyVps265) || !bytes.Equal(v.Pps, dummyPps265)) {
		return L(I(7), B(v.Vps))
	}
	// parsing the stored set again (a second consumer) gives the same answer
	v2 := codec.VideoMeta{Codec: v.Codec, Vps: v.Vps, Sps: v.Sps, Pps: v.Pps}
	if kind == 264 {
		h264.MetadataIsReady(&v2)
	} else {
		hevc.MetadataIsReady(&v2)
	}
	if o3 := videoObs(&v2); o3.String() != o1.String() {
		return L(I(8), o1, o3)
	}
	return L(o1, B(append([]byte{}, stored[0]...)))
}

func init() {
	commands["sdp264"] = func(c Val) Val { return sdpVideo(264, c.At(1).Bytes()) }
	commands["sdp265"] = func(c Val) Val { return sdpVideo(265, c.At(1).Bytes()) }
	commands["sdp264b"] = func(c Val) Val { return sdpVideo(264, c.Bytes()) }
	commands["sdp265b"] = func(c Val) Val { return sdpVideo(265, c.Bytes()) }
	// audio: the stream must come up with the rtpmap's rate/channels whatever the config bytes are
	commands["sdpaac"] = func(c Val) Val {
		raw := sdpHead + "m=audio 0 RTP/AVP 97\r\na=rtpmap:97 MPEG4-GENERIC/48000/2\r\n" +
			"a=fmtp:97 streamtype=5;profile-level-id=1;mode=AAC-hbr;sizelength=13;indexlength=3;indexdeltalength=3;config=" +
			hex.EncodeToString(c.Bytes()) + "\r\na=control:streamid=1\r\n"
		s := media.NewStream("/c15/glue", raw)
		defer s.Close()
		if s.Audio.Codec != "AAC" || s.Audio.SampleRate != 48000 || s.Audio.Channels != 2 {
			return L(I(2), I(int64(s.Audio.SampleRate)), I(int64(s.Audio.Channels)))
		}
		return L(I(1), I(48000), I(2))
	}
	commands["h265"] = func(c Val) Val { return h265Decode(c.At(1).Bytes()) }
	commands["h265b"] = func(c Val) Val { return h265Decode(c.Bytes()) }
	commands["vps"] = func(c Val) Val { return vpsDecode(c.At(1).Bytes()) }
	commands["vpsb"] = func(c Val) Val { return vpsDecode(c.Bytes()) }
	commands["asc"] = func(c Val) Val { return ascDecode(c.At(1).Bytes()) }
	commands["ascb"] = func(c Val) Val { return ascDecode(c.Bytes()) }
	commands["h264"] = func(c Val) Val { return h264Decode(c.At(1).Bytes()) }
	commands["h264b"] = func(c Val) Val { return h264Decode(c.Bytes()) }
	commands["unescape"] = func(c Val) Val {
		return B(utils.RemoveH264or5EmulationBytes(append([]byte{}, c.Bytes()...)))
	}
	commands["f64div"] = func(c Val) Val {
		return f64bits(float64(uint32(c.At(0).Int())) / float64(uint32(c.At(1).Int())))
	}
	commands["reader"] = func(c Val) Val {
		r := bits.NewReader(c.At(0).Bytes())
		out := []Val{}
		func() {
			defer func() {
				if recover() != nil {
					out = append(out, L())
				}
			}()
			for _, op := range c.At(1).List() {
				switch op.At(0).Int() {
				case 0:
					out = append(out, U(uint64(r.Read(int(op.At(1).Int())))))
				case 1:
					out = append(out, U(uint64(r.ReadUe())))
				case 2:
					out = append(out, I(int64(r.ReadSe())))
				default:
					r.Skip(int(op.At(1).Int()))
					out = append(out, I(0))
				}
			}
		}()
		return L(out...)
	}
}
