// C13, WebSocket half: "every WebSocket message contains exactly one complete response or one
// complete interleaved frame" rests on the staging buffers that service/wsp and service/rtsp take
// from a package-level sync.Pool (Get, Reset, compose, one Write on the WebSocket, Put).
//
// Command C13_pool replays a history on the REAL server side: the production HTTP handler
// (service.VerifNewHTTP: /streams/ upgrade into ws-rtsp and WSP control/data channels) served by a
// real http.Server over in-memory connections (net.Pipe), real gorilla/websocket clients on the other
// end.  The server end of every connection parks at the schedule point "sock.write:<conn>" before a
// socket write proceeds; together with consume.got and rtpwrite.prefix (media goroutine between the
// frame prefix and the payload, both written into the pooled buffer) the case's schedule decides
// when the media goroutines and the request goroutines of one or two playing sessions run.
// Deterministic: one P (GOMAXPROCS(1)), no garbage collection during a case, pools emptied before it —
// what sync.Pool hands out then depends only on the order of Get and Put.
//
// History: earlier sessions (WSP or ws-rtsp) that answer k keep-alives (optionally play one packet)
// and disconnect; then one or two playing sessions; packets are published and keep-alive requests fed
// under the schedule; finally everybody disconnects and both pools are drained through the verif
// export (ownership probe: no buffer may be in a pool twice).
// Observed: the messages the real clients read, per connection.
package main

import (
	"bufio"
	"bytes"
	"fmt"
	"io"
	"net"
	"net/http"
	"runtime"
	"runtime/debug"
	"sort"
	"strings"
	"sync"
	"sync/atomic"
	"time"

	. "vh/lib"
	"vh/sched"

	"github.com/cnotch/ipchub/av/format/rtp"
	fmtrtsp "github.com/cnotch/ipchub/av/format/rtsp"
	"github.com/cnotch/ipchub/config"
	"github.com/cnotch/ipchub/media"
	"github.com/cnotch/ipchub/service"
	"github.com/cnotch/ipchub/service/rtsp"
	"github.com/cnotch/ipchub/service/wsp"
	"github.com/cnotch/xlog"
	"github.com/gorilla/websocket"
)

const poolPath = "/c13/p"

// ---------------------------------------------------------------- in-memory network under a real http.Server
type pipeListener struct{ ch chan net.Conn }

func (l *pipeListener) Accept() (net.Conn, error) {
	c, ok := <-l.ch
	if !ok {
		return nil, io.EOF
	}
	return c, nil
}
func (l *pipeListener) Close() error   { return nil }
func (l *pipeListener) Addr() net.Addr { return c13Addr{} }

var (
	poolOnce sync.Once
	poolLn   *pipeListener
	poolCtl  atomic.Value // *sched.Ctl of the running case
)

// server end of a connection: a socket write proceeds when the schedule says so
type parkConn struct {
	net.Conn
	name string
}

func (c *parkConn) Write(p []byte) (int, error) {
	if ctl, _ := poolCtl.Load().(*sched.Ctl); ctl != nil {
		ctl.Here("sock.write:" + c.name) // nothing of p has been taken yet
	}
	return c.Conn.Write(p)
}
func (c *parkConn) RemoteAddr() net.Addr { return c13Addr{} }
func (c *parkConn) LocalAddr() net.Addr  { return c13Addr{} }

func poolStart() {
	poolOnce.Do(func() {
		runtime.GOMAXPROCS(1) // one P: a buffer put into a sync.Pool is what a later Get hands out
		xlog.ReplaceGlobal(xlog.New(xlog.NewNopCore()))
		config.VerifSetAuth(false)
		handler, _ := service.VerifNewHTTP()
		poolLn = &pipeListener{ch: make(chan net.Conn, 64)}
		go (&http.Server{Handler: handler}).Serve(poolLn)
	})
}

// ---------------------------------------------------------------- a real WebSocket client
type wsClient struct {
	name   string
	ws     *websocket.Conn
	mu     sync.Mutex
	msgs   [][]byte
	out    chan []byte
	closed bool
}

func dialWS(name, proto string) (*wsClient, error) {
	d := websocket.Dialer{HandshakeTimeout: 10 * time.Second, Subprotocols: []string{proto},
		NetDial: func(network, addr string) (net.Conn, error) {
			cl, sv := net.Pipe()
			poolLn.ch <- &parkConn{Conn: sv, name: name}
			return cl, nil
		}}
	ws, _, err := d.Dial("ws://c13.test/streams"+poolPath, nil)
	if err != nil {
		return nil, err
	}
	c := &wsClient{name: name, ws: ws, out: make(chan []byte, 64)}
	go func() { // reader: one entry per WebSocket message
		for {
			_, m, err := ws.ReadMessage()
			if err != nil {
				return
			}
			c.mu.Lock()
			c.msgs = append(c.msgs, m)
			c.mu.Unlock()
		}
	}()
	go func() { // writer: the harness never blocks on a server that is parked
		for m := range c.out {
			ws.WriteMessage(websocket.TextMessage, m)
		}
	}()
	return c, nil
}

func (c *wsClient) count() int {
	c.mu.Lock()
	defer c.mu.Unlock()
	return len(c.msgs)
}
func (c *wsClient) since(n int) [][]byte {
	c.mu.Lock()
	defer c.mu.Unlock()
	return append([][]byte(nil), c.msgs[n:]...)
}
func (c *wsClient) close() {
	if !c.closed {
		c.closed = true
		close(c.out)
		c.ws.Close()
	}
}

// ---------------------------------------------------------------- messages
// WSP writes its header lines in map order: compare responses with the header lines sorted
func canonWSP(m []byte) []byte {
	if !bytes.HasPrefix(m, []byte("WSP/1.1 ")) {
		return m
	}
	i := bytes.Index(m, []byte("\r\n\r\n"))
	if i < 0 {
		return m
	}
	lines := strings.Split(string(m[:i]), "\r\n")
	sort.Strings(lines[1:])
	return append([]byte(strings.Join(lines, "\r\n")), m[i:]...)
}

// exactly one complete RTSP response, read by the real reader, nothing left over
func oneRTSPResponse(m []byte) bool {
	if !bytes.HasPrefix(m, []byte("RTSP/1.0 ")) {
		return false
	}
	r := bufio.NewReader(bytes.NewReader(m))
	if _, err := fmtrtsp.ReadResponse(r); err != nil {
		return false
	}
	return r.Buffered() == 0
}

// exactly one complete response of the transport: RTSP response (ws-rtsp) or a WSP response
// (status line, header lines, blank line) carrying nothing or exactly one RTSP response
func oneResponse(m []byte) bool {
	if bytes.HasPrefix(m, []byte("WSP/1.1 ")) {
		i := bytes.Index(m, []byte("\r\n\r\n"))
		if i < 0 {
			return false
		}
		for _, l := range strings.Split(string(m[:i]), "\r\n")[1:] {
			if !strings.Contains(l, ": ") {
				return false
			}
		}
		body := m[i+4:]
		return len(body) == 0 || oneRTSPResponse(body)
	}
	return oneRTSPResponse(m)
}

// ---------------------------------------------------------------- sessions
type poolSession struct {
	kind   int64 // 3 = WSP (control + data channel), 2 = ws-rtsp
	name   string
	chmap  [4]int64
	ctrl   *wsClient
	data   *wsClient
	chanID string
	seq    int
	tpl    map[string][]byte
	frames []Val
	resps  []Val
	cid    uint32
}

const (
	tplSeq  = "660066"
	tplCSeq = "770077"
)

func (s *poolSession) requestText(method, wseq, cseq, extra string) []byte {
	text := fmt.Sprintf("%s rtsp://127.0.0.1:554%s RTSP/1.0\r\nCSeq: %s\r\n%s\r\n", method, poolPath, cseq, extra)
	if method == "SETUP0" || method == "SETUP1" {
		text = fmt.Sprintf("SETUP rtsp://127.0.0.1:554%s/streamid=%s RTSP/1.0\r\nCSeq: %s\r\n%s\r\n", poolPath, method[5:], cseq, extra)
	}
	if s.kind == 3 {
		text = fmt.Sprintf("WSP/1.1 WRAP\r\nchannel: %s\r\nseq: %s\r\n\r\n%s", s.chanID, wseq, text)
	}
	return []byte(text)
}

func (s *poolSession) closeAll() {
	if s.ctrl != nil {
		s.ctrl.close()
	}
	if s.data != nil && s.data != s.ctrl {
		s.data.close()
	}
}

// case = (earlier playing packets requests scenario schedule)
//
//	earlier  = ((kind k play) ..)            sessions that answer k keep-alives and disconnect
//	playing  = ((kind (c0 c1 c2 c3)) ..)     one or two sessions, interleaved channels of video/rtcp/audio/rtcp (c2 < 0: video only)
//	packets  = ((channel data) ..)           channel 0 video / 2 audio
//	requests = ((session method) ..)         method 0 OPTIONS, 4 PLAY, 8 GET_PARAMETER
//	scenario = (kind j)                      forced meeting before the scripted schedule, see below
//	schedule = (n ..)                        choices among the possible actions
//
// observation = (((conn (message ..)) ..) ((kind ctrl data (frame ..) (response ..)) ..)
//
//	(wsp pool ids ..) (rtsp pool ids ..) (malformed setup messages ..) forced note
//	((published ..) (the same packets afterwards ..) padding-flags-changed))
func c13pool(c Val) Val {
	poolStart()
	earlier, playing, pkts, reqs := c.At(0).List(), c.At(1).List(), c.At(2).List(), c.At(3).List()
	scKind, scJ, schedule := c.At(4).At(0).Int(), int(c.At(4).At(1).Int()), c.At(5).List()

	media.UnregistAll()
	runtime.GC()
	runtime.GC() // both generations of every sync.Pool are gone
	defer debug.SetGCPercent(debug.SetGCPercent(-1))
	wsp.VerifDrainBuffers()
	rtsp.VerifDrainBuffers()

	ctl := sched.New()
	poolCtl.Store(ctl)
	var armed int32
	watch := map[string]bool{}
	// several goroutines write on a connection one after the other (HTTP upgrade, WSP handshake, the
	// session's request goroutine): each gets its own thread "r:<conn>#<n>", the latest is the live one
	var writerMu sync.Mutex
	writers, latest := 0, map[string]string{}
	ctl.Role = func(point string, id uint32) string {
		switch {
		case strings.HasPrefix(point, "consume."):
			return fmt.Sprintf("m%d", id&0x3fffffff)
		case strings.HasPrefix(point, "worker.") && id == 1:
			return "demux" // the stream's RTP->frame demuxer: works on the SAME *rtp.Packet the viewers are sent
		case strings.HasPrefix(point, "sock.write:"):
			writerMu.Lock()
			defer writerMu.Unlock()
			writers++
			conn := point[len("sock.write:"):]
			latest[conn] = fmt.Sprintf("r:%s#%d", conn, writers)
			return latest[conn]
		}
		return ""
	}
	ctl.Allow = func(thread, point string) bool {
		if i := strings.IndexByte(thread, '#'); i >= 0 {
			thread = thread[:i]
		}
		if atomic.LoadInt32(&armed) == 0 || !watch[thread] {
			return false
		}
		if thread == "demux" {
			return point == "worker.got"
		}
		if thread[0] == 'm' {
			return point == "consume.got" || point == "rtpwrite.prefix" || strings.HasPrefix(point, "sock.write:")
		}
		return strings.HasPrefix(point, "sock.write:")
	}
	stream := media.NewStream(poolPath, c13SDP)
	media.Regist(stream)
	var all []*poolSession
	defer func() {
		for _, s := range all {
			s.closeAll()
		}
		ctl.Finish()
		media.UnregistAll()
	}()
	ctl.Settle()

	var badSetup []Val
	exchange := func(c *wsClient, text []byte) [][]byte {
		n := c.count()
		c.out <- text
		ctl.Settle()
		return c.since(n)
	}
	// a quiet exchange: one request, exactly one answer, which must be one complete response
	quiet := func(c *wsClient, text []byte) ([]byte, error) {
		ms := exchange(c, text)
		for _, m := range ms {
			if !oneResponse(m) {
				badSetup = append(badSetup, B(m))
			}
		}
		if len(ms) != 1 {
			return nil, fmt.Errorf("%d answers to %.40q", len(ms), text)
		}
		return ms[0], nil
	}
	var nextCid uint32
	attach := func(kind int64, name string, chmap [4]int64, play bool) (*poolSession, error) {
		s := &poolSession{kind: kind, name: name, chmap: chmap, tpl: map[string][]byte{}}
		all = append(all, s)
		var err error
		if kind == 3 {
			if s.ctrl, err = dialWS(name+"c", "control"); err != nil {
				return nil, err
			}
			r, err := quiet(s.ctrl, []byte("WSP/1.1 INIT\r\nproto: rtsp\r\nhost: 127.0.0.1\r\nport: 554\r\nseq: 1\r\n\r\n"))
			if err != nil {
				return nil, err
			}
			for _, l := range strings.Split(string(r), "\r\n") {
				if strings.HasPrefix(strings.ToLower(l), "channel:") {
					s.chanID = strings.TrimSpace(l[8:])
				}
			}
			if !bytes.HasPrefix(r, []byte("WSP/1.1 200")) || s.chanID == "" {
				return nil, fmt.Errorf("INIT refused: %.60q", r)
			}
			if s.data, err = dialWS(name+"d", "data"); err != nil {
				return nil, err
			}
			if r, err := quiet(s.data, []byte("WSP/1.1 JOIN\r\nchannel: "+s.chanID+"\r\nseq: 1\r\n\r\n")); err != nil || !bytes.HasPrefix(r, []byte("WSP/1.1 200")) {
				return nil, fmt.Errorf("JOIN refused: %.60q %v", r, err)
			}
		} else {
			if s.ctrl, err = dialWS(name, "rtsp"); err != nil {
				return nil, err
			}
			s.data = s.ctrl
			ctl.Settle()
		}
		steps := []struct{ m, extra string }{{"DESCRIBE", ""},
			{"SETUP0", fmt.Sprintf("Transport: RTP/AVP/TCP;unicast;interleaved=%d-%d\r\n", chmap[0], chmap[1])}}
		if chmap[2] >= 0 { // a viewer may set up the video track only
			steps = append(steps, struct{ m, extra string }{"SETUP1", fmt.Sprintf("Transport: RTP/AVP/TCP;unicast;interleaved=%d-%d\r\n", chmap[2], chmap[3])})
		}
		if play {
			steps = append(steps, struct{ m, extra string }{"PLAY", ""})
		}
		for _, st := range steps {
			s.seq++
			r, err := quiet(s.ctrl, s.requestText(st.m, fmt.Sprint(s.seq), fmt.Sprint(s.seq), st.extra))
			if err != nil {
				return nil, err
			}
			if i := bytes.Index(r, []byte("RTSP/1.0 ")); i < 0 || !bytes.HasPrefix(r[i:], []byte("RTSP/1.0 200")) {
				return nil, fmt.Errorf("%s %s: %.80q", name, st.m, r)
			}
		}
		if play {
			nextCid++
			s.cid = nextCid
		}
		return s, nil
	}
	mkPacket := func(p Val) *rtp.Packet {
		pk := &rtp.Packet{Channel: byte(p.At(0).Int()), Data: p.At(1).Bytes()}
		if pk.Channel == rtp.ChannelVideo || pk.Channel == rtp.ChannelAudio {
			if err := pk.Header.Unmarshal(pk.Data); err != nil {
				panic(err)
			}
		}
		return pk
	}
	keepAlive := func(s *poolSession, method string, tpl bool) ([]byte, error) {
		s.seq++
		ws, cs := fmt.Sprint(s.seq), fmt.Sprint(s.seq)
		if tpl {
			ws, cs = tplSeq, tplCSeq
		}
		return quiet(s.ctrl, s.requestText(method, ws, cs, ""))
	}

	// ---- phase 1: earlier sessions come, answer, go
	for i, e := range earlier {
		s, err := attach(e.At(0).Int(), fmt.Sprintf("e%d", i), [4]int64{0, 1, 2, 3}, e.At(2).Bool())
		if err != nil {
			return L(S("!setup"), S(err.Error()))
		}
		for k := int64(0); k < e.At(1).Int(); k++ {
			if _, err := keepAlive(s, "OPTIONS", false); err != nil {
				return L(S("!setup"), S(err.Error()))
			}
		}
		if e.At(2).Bool() {
			stream.WriteRtpPacket(mkPacket(L(I(0), B([]byte{0x80, 96, 0, 1, 0, 0, 0, 1, 1, 2, 3, 4, 0x41, 9, 9, 9}))))
			ctl.Settle()
		}
		s.closeAll()
		ctl.Settle()
	}
	if stream.ConsumerCount() != 0 {
		return L(S("!setup"), S("an earlier session is still consuming"))
	}

	// ---- phase 2: the playing sessions
	var ps []*poolSession
	methods := map[int64]string{0: "OPTIONS", 4: "PLAY", 8: "GET_PARAMETER"}
	for j, p := range playing {
		var cm [4]int64
		for k := 0; k < 4; k++ {
			cm[k] = p.At(1).At(k).Int()
		}
		s, err := attach(p.At(0).Int(), fmt.Sprintf("p%d", j), cm, true)
		if err != nil {
			return L(S("!setup"), S(err.Error()))
		}
		ps = append(ps, s)
	}
	if stream.ConsumerCount() != len(ps) {
		return L(S("!setup"), S("not every session is consuming"))
	}
	// what each session answers to each kind of request while nothing else writes
	for _, q := range reqs {
		s, m := ps[int(q.At(0).Int())%len(ps)], methods[q.At(1).Int()]
		if _, ok := s.tpl[m]; !ok {
			r, err := keepAlive(s, m, true)
			if err != nil {
				return L(S("!setup"), S(err.Error()))
			}
			r = canonWSP(r)
			if !bytes.Contains(r, []byte("CSeq: "+tplCSeq+"\r\n")) || (s.kind == 3 && !bytes.Contains(r, []byte("seq: "+tplSeq+"\r\n"))) {
				return L(S("!setup"), S("no template for "+m))
			}
			s.tpl[m] = r
		}
	}
	mediaName := func(s *poolSession) string { return fmt.Sprintf("m%d", s.cid) }
	reqName := func(s *poolSession) string {
		writerMu.Lock()
		defer writerMu.Unlock()
		return latest[s.ctrl.name]
	}
	for _, s := range ps {
		watch[mediaName(s)], watch["r:"+s.ctrl.name] = true, true
	}
	watch["demux"] = true
	threads := func() (out []string) {
		for _, s := range ps {
			out = append(out, mediaName(s), reqName(s))
		}
		out = append(out, "demux")
		return
	}
	start := map[*wsClient]int{}
	for _, s := range ps {
		start[s.ctrl], start[s.data] = s.ctrl.count(), s.data.count()
	}
	nextPkt, nextReq := 0, 0
	var published []*rtp.Packet
	var pubData []Val
	var pubPad []bool
	publish := func() {
		p := pkts[nextPkt]
		nextPkt++
		pk := mkPacket(p)
		published, pubData, pubPad = append(published, pk), append(pubData, B(append([]byte(nil), pk.Data...))), append(pubPad, pk.Padding)
		for _, s := range ps {
			ch := s.chmap[pk.Channel]
			if ch < 0 {
				continue // track not set up: nothing is to be sent to this viewer
			}
			s.frames = append(s.frames, B(append([]byte{'$', byte(ch), byte(len(pk.Data) >> 8), byte(len(pk.Data))}, pk.Data...)))
		}
		stream.WriteRtpPacket(pk)
		ctl.Settle()
	}
	feed := func() *poolSession {
		q := reqs[nextReq]
		nextReq++
		s, m := ps[int(q.At(0).Int())%len(ps)], methods[q.At(1).Int()]
		s.seq++
		n := fmt.Sprint(s.seq)
		want := bytes.Replace(s.tpl[m], []byte("CSeq: "+tplCSeq+"\r\n"), []byte("CSeq: "+n+"\r\n"), 1)
		want = bytes.Replace(want, []byte("seq: "+tplSeq+"\r\n"), []byte("seq: "+n+"\r\n"), 1)
		s.resps = append(s.resps, B(canonWSP(want)))
		s.ctrl.out <- s.requestText(m, n, n, "")
		ctl.Settle()
		return s
	}
	parked := func(name string) bool {
		st := ctl.Status(name)
		return st != "" && st != "done" && st != "blocked"
	}
	inWrite := func(name string) bool { return strings.HasPrefix(ctl.Status(name), "sock.write:") }
	// run a goroutine until it has nothing more to do for now (media: back at the queue)
	runOut := func(name string) {
		for g := 0; g < 64 && parked(name); g++ {
			ctl.Step(name)
			if name[0] == 'm' && ctl.Status(name) == "consume.got" {
				return
			}
		}
	}
	total := func() int {
		n := 0
		for _, s := range ps {
			n += s.ctrl.count()
			if s.data != s.ctrl {
				n += s.data.count()
			}
		}
		return n
	}

	atomic.StoreInt32(&armed, 1)
	forced, note := int64(0), ""
	if len(pkts) > 0 && len(reqs) > 0 {
		a := ps[scJ%len(ps)]
		switch scKind {
		case 0, 1: // media goroutine of a holds its buffer (0: between prefix and payload, 1: inside the socket write)
			publish()
			want := "rtpwrite.prefix"
			for g := 0; g < 8 && parked(mediaName(a)); g++ {
				st := ctl.Status(mediaName(a))
				if (scKind == 0 && st == want) || (scKind == 1 && inWrite(mediaName(a))) {
					break
				}
				ctl.Step(mediaName(a))
			}
			st := ctl.Status(mediaName(a))
			if (scKind == 0 && st == want) || (scKind == 1 && inWrite(mediaName(a))) {
				// the frame is half composed / half sent: the demuxer works on the shared packet now
				for g := 0; g < 8 && parked("demux"); g++ {
					ctl.Step("demux")
				}
				before := total()
				s := feed()
				runOut(reqName(s))
				for _, o := range ps { // the other sessions deliver the same packet meanwhile
					if o != a {
						runOut(mediaName(o))
					}
				}
				if total() > before && ctl.Status(mediaName(a)) == st {
					forced = 1
				} else {
					note = fmt.Sprintf("nothing was sent while the media goroutine was parked at %s (now %s; responder %s=%s)", st, ctl.Status(mediaName(a)), reqName(s), ctl.Status(reqName(s)))
				}
			} else {
				note = "media goroutine not parked where the scenario wants it: " + mediaName(a) + "=" + st
			}
		case 2: // request goroutine holds its buffer inside the socket write of its response
			s := feed()
			if inWrite(reqName(s)) {
				before := total()
				publish()
				for _, o := range ps {
					runOut(mediaName(o))
				}
				if total() > before && inWrite(reqName(s)) {
					forced = 1
				}
			} else {
				note = "responder not parked in its socket write: " + ctl.Status(reqName(s))
			}
		}
	}
	si := 0
	for guard := 0; guard < 4000; guard++ {
		type act struct {
			k byte
			n string
		}
		var acts []act
		for _, t := range threads() {
			if parked(t) {
				acts = append(acts, act{'S', t})
			}
		}
		if nextPkt < len(pkts) {
			acts = append(acts, act{'P', ""})
		}
		if nextReq < len(reqs) {
			acts = append(acts, act{'Q', ""})
		}
		if len(acts) == 0 {
			break
		}
		a := acts[0]
		if si < len(schedule) {
			a = acts[int(schedule[si].Int())%len(acts)]
			si++
		}
		switch a.k {
		case 'S':
			ctl.Step(a.n)
		case 'P':
			publish()
		case 'Q':
			feed()
		}
	}
	atomic.StoreInt32(&armed, 0)
	ctl.Finish()

	// ---- what the clients read
	conns := []Val{}
	sess := []Val{}
	for j, s := range ps {
		take := func(c *wsClient) Val {
			ms := []Val{}
			for _, m := range c.since(start[c]) {
				ms = append(ms, B(canonWSP(m)))
			}
			return L(ms...)
		}
		ctrlID, dataID := int64(2*j), int64(2*j)
		conns = append(conns, L(I(ctrlID), take(s.ctrl)))
		if s.data != s.ctrl {
			dataID = int64(2*j + 1)
			conns = append(conns, L(I(dataID), take(s.data)))
		}
		sess = append(sess, L(I(s.kind), I(ctrlID), I(dataID), L(s.frames...), L(s.resps...)))
	}

	// ---- phase 3: everybody leaves; ownership probe on both pools
	for _, s := range all {
		s.closeAll()
	}
	ctl.Settle()
	if n := stream.ConsumerCount(); n != 0 {
		note += fmt.Sprintf(" consumers left: %d", n)
	}
	ids := map[*bytes.Buffer]int64{}
	number := func(bs []*bytes.Buffer) Val {
		out := []Val{}
		for _, b := range bs {
			if _, ok := ids[b]; !ok {
				ids[b] = int64(len(ids))
			}
			out = append(out, I(ids[b]))
		}
		return L(out...)
	}
	wspPool := number(wsp.VerifDrainBuffers())
	rtspPool := number(rtsp.VerifDrainBuffers())
	after, padChanged := []Val{}, int64(0)
	for i, pk := range published {
		after = append(after, B(append([]byte(nil), pk.Data...)))
		if pk.Padding != pubPad[i] {
			padChanged++
		}
	}
	return L(L(conns...), L(sess...), wspPool, rtspPool, L(badSetup...), I(forced), S(strings.TrimSpace(note)),
		L(L(pubData...), L(after...), I(padChanged)))
}

func init() { commands["C13_pool"] = c13pool }
