// C13, session level: a REAL playing RTSP session (rtsp.CreateAcceptHandler) on a
// scripted connection whose Write parks at the schedule point "sock.write" before the
// bytes count as sent.  The schedule controller decides when the media goroutine
// (consumption -> tcpConsumer.Consume -> Packet.Write: prefix, point "rtpwrite.prefix",
// payload) and the request goroutine (Session.response: resp.Write + Flush) run, so the
// two writers are forced to meet inside their critical sections.
package main

import (
	"bufio"
	"bytes"
	"fmt"
	"io"
	"net"
	"strings"
	"sync"
	"sync/atomic"
	"time"

	. "vh/lib"
	"vh/sched"

	"github.com/cnotch/ipchub/av/format/rtp"
	fmtrtsp "github.com/cnotch/ipchub/av/format/rtsp"
	"github.com/cnotch/ipchub/media"
	"github.com/cnotch/ipchub/network/websocket"
	"github.com/cnotch/ipchub/service/rtsp"
	"github.com/cnotch/xlog"
)

const c13SDP = "v=0\r\no=- 0 0 IN IP4 127.0.0.1\r\ns=摄像头 Nº1 — caméra\r\nc=IN IP4 127.0.0.1\r\nt=0 0\r\n" +
	"m=video 0 RTP/AVP 96\r\na=rtpmap:96 H264/90000\r\na=fmtp:96 packetization-mode=1; sprop-parameter-sets=Z2QAH6zZQFAFuhAAAAMAEAAAAwPI8YMZYA==,aO+8sA==; profile-level-id=64001F\r\na=control:streamid=0\r\n" +
	"m=audio 0 RTP/AVP 97\r\na=rtpmap:97 MPEG4-GENERIC/44100/2\r\na=fmtp:97 profile-level-id=1;mode=AAC-hbr;sizelength=13;indexlength=3;indexdeltalength=3; config=121056E500\r\na=control:streamid=1\r\n"

// schedConn is the socket under the session.  A Write parks at "sock.write" (when the
// controller says so) and only then appends to the wire: the wire holds the bytes in the
// order in which the socket writes complete, like the peer of a TCP connection sees them.
type schedConn struct {
	ctl    *sched.Ctl
	in     chan []byte
	pend   []byte
	closed chan struct{}
	once   sync.Once
	mu     sync.Mutex
	wire   []byte
	writes [][]byte
}

type c13Addr struct{}

func (c13Addr) Network() string { return "tcp" }
func (c13Addr) String() string  { return "127.0.0.1:50013" }

func (c *schedConn) Read(p []byte) (int, error) {
	if len(c.pend) == 0 {
		select {
		case b := <-c.in:
			c.pend = b
		case <-c.closed:
			return 0, io.EOF
		}
	}
	n := copy(p, c.pend)
	c.pend = c.pend[n:]
	return n, nil
}

func (c *schedConn) Write(p []byte) (int, error) {
	data := append([]byte(nil), p...)
	c.ctl.Here("sock.write")
	c.mu.Lock()
	c.wire = append(c.wire, data...)
	c.writes = append(c.writes, data)
	c.mu.Unlock()
	return len(p), nil
}

func (c *schedConn) snapshot() ([]byte, int) {
	c.mu.Lock()
	defer c.mu.Unlock()
	return append([]byte(nil), c.wire...), len(c.writes)
}

func (c *schedConn) Close() error                       { c.once.Do(func() { close(c.closed) }); return nil }
func (c *schedConn) LocalAddr() net.Addr                { return c13Addr{} }
func (c *schedConn) RemoteAddr() net.Addr               { return c13Addr{} }
func (c *schedConn) SetDeadline(t time.Time) error      { return nil }
func (c *schedConn) SetReadDeadline(t time.Time) error  { return nil }
func (c *schedConn) SetWriteDeadline(t time.Time) error { return nil }

// ws-rtsp: the session sees a websocket.Conn; one Write = one WebSocket message
type c13ws struct {
	*schedConn
	path string
}

func (w *c13ws) Subprotocol() string           { return "rtsp" }
func (w *c13ws) TextTransport() websocket.Conn { return w }
func (w *c13ws) Path() string                  { return w.path }
func (w *c13ws) Username() string              { return "" }

var c13quiet sync.Once

var c13methods = map[int64]string{0: "OPTIONS", 4: "PLAY", 7: "PAUSE", 8: "GET_PARAMETER", 1: "DESCRIBE"}

func c13request(method string, cseq string, extra string) []byte {
	return []byte(fmt.Sprintf("%s rtsp://127.0.0.1:554/c13/a RTSP/1.0\r\nCSeq: %s\r\n%s\r\n", method, cseq, extra))
}

// parse the client's bytes with the real readers, like service/rtsp's receive loop does
func c13parse(sink []byte) (frames, resps int64, ok bool) {
	r := bufio.NewReaderSize(bytes.NewReader(sink), 4096)
	for {
		b, err := r.Peek(1)
		if err != nil {
			return frames, resps, true // end of stream at a message boundary
		}
		if b[0] == rtp.TransferPrefix {
			if _, err := rtp.ReadPacket(r, []int{0, 1, 2, 3}); err != nil {
				return frames, resps, false
			}
			frames++
			continue
		}
		if _, err := fmtrtsp.ReadResponse(r); err != nil {
			return frames, resps, false
		}
		resps++
	}
}

// case = (ws scenario packets requests schedule drain)
//
//	packets = ((channel data) ..)   requests = ((method cseq) ..)
//
// observation = (sink (frame-messages) (response-messages) (nframes nresps parse_ok)
//
//	overlap expect-flag (socket-writes ..) note ((published ..) (the same packets afterwards ..) padding-flags-changed))
func c13session(c Val) Val {
	c13quiet.Do(func() { xlog.ReplaceGlobal(xlog.New(xlog.NewNopCore())) })
	ws, scenario := c.At(0).Bool(), c.At(1).Int()
	pkts, reqs, schedule, drain := c.At(2).List(), c.At(3).List(), c.At(4).List(), int(c.At(5).Int())

	media.UnregistAll()
	ctl := sched.New()
	defer func() {
		ctl.Finish()
	}()
	var armed int32
	ctl.Role = func(point string, id uint32) string {
		switch point {
		case "consume.pop", "consume.got", "rtpwrite.prefix":
			return "media"
		case "sock.write":
			return "req"
		case "worker.pop", "worker.got":
			if id == 1 { // the stream's RTP->frame demuxer: works on the SAME *rtp.Packet the viewers are sent
				return "demux"
			}
		}
		return ""
	}
	ctl.Allow = func(thread, point string) bool {
		if atomic.LoadInt32(&armed) == 0 {
			return false
		}
		if thread == "media" {
			return point == "consume.got" || point == "rtpwrite.prefix" || point == "sock.write"
		}
		if thread == "demux" {
			return point == "worker.got"
		}
		return thread == "req" && point == "sock.write"
	}

	stream := media.NewStream("/c13/a", c13SDP)
	media.Regist(stream)
	sc := &schedConn{ctl: ctl, in: make(chan []byte, 256), closed: make(chan struct{})}
	var conn net.Conn = sc
	if ws {
		conn = &c13ws{schedConn: sc, path: "/c13/a"}
	}
	defer func() {
		sc.Close()
		media.UnregistAll()
	}()
	rtsp.CreateAcceptHandler()(conn)
	ctl.Settle()

	// sequential exchange: feed a request, wait until everything is quiet, return what was sent for it
	exchange := func(text []byte) []byte {
		before, _ := sc.snapshot()
		sc.in <- text
		ctl.Settle()
		after, _ := sc.snapshot()
		return after[len(before):]
	}
	status := func(b []byte) string {
		if i := bytes.Index(b, []byte("\r\n")); i > 0 {
			return string(b[:i])
		}
		return string(b)
	}
	setup := [][]byte{
		c13request("DESCRIBE", "1", ""),
		[]byte("SETUP rtsp://127.0.0.1:554/c13/a/streamid=0 RTSP/1.0\r\nCSeq: 2\r\nTransport: RTP/AVP/TCP;unicast;interleaved=0-1\r\n\r\n"),
		[]byte("SETUP rtsp://127.0.0.1:554/c13/a/streamid=1 RTSP/1.0\r\nCSeq: 3\r\nTransport: RTP/AVP/TCP;unicast;interleaved=2-3\r\n\r\n"),
		c13request("PLAY", "4", ""),
	}
	for _, t := range setup {
		if r := exchange(t); !strings.HasPrefix(status(r), "RTSP/1.0 200") {
			return L(S("!setup"), S(status(r)))
		}
	}
	if stream.ConsumerCount() != 1 {
		return L(S("!setup"), S("no consumer after PLAY"))
	}
	// response templates: what the server answers to each kind of request used, taken while
	// nothing else writes; the answers of the concurrent phase differ only in the CSeq value
	const tplCSeq = "770077"
	templates := map[string][]byte{}
	for _, q := range append([]Val{L(I(0), S("x"))}, reqs...) {
		m := c13methods[q.At(0).Int()]
		if _, ok := templates[m]; !ok {
			templates[m] = exchange(c13request(m, tplCSeq, ""))
			if !bytes.Contains(templates[m], []byte("CSeq: "+tplCSeq+"\r\n")) {
				return L(S("!setup"), S("no template for "+m))
			}
		}
	}
	intended := func(m, cseq string) []byte {
		return bytes.Replace(templates[m], []byte("CSeq: "+tplCSeq+"\r\n"), []byte("CSeq: "+cseq+"\r\n"), 1)
	}
	// drain the connection's flush tokens so that responses are queued and Flush does the socket write
	for i := 0; i < drain; i++ {
		for k := 0; k < 2; k++ {
			exchange(c13request("OPTIONS", tplCSeq, ""))
		}
	}

	start, startWrites := sc.snapshot()
	frameMsgs, respMsgs := []Val{}, []Val{}
	nextPkt, nextReq := 0, 0
	overlap := int64(0)
	note := ""

	var published []*rtp.Packet
	var pubData []Val
	var pubPad []bool
	publish := func() {
		p := pkts[nextPkt]
		nextPkt++
		data := p.At(1).Bytes()
		pk := &rtp.Packet{Channel: byte(p.At(0).Int()), Data: data}
		if pk.Channel == rtp.ChannelVideo || pk.Channel == rtp.ChannelAudio {
			if err := pk.Header.Unmarshal(pk.Data); err != nil {
				panic(err)
			}
		}
		published, pubData, pubPad = append(published, pk), append(pubData, B(append([]byte(nil), data...))), append(pubPad, pk.Padding)
		frameMsgs = append(frameMsgs, L(B([]byte{'$', pk.Channel, byte(len(data) >> 8), byte(len(data))}), B(append([]byte(nil), data...))))
		stream.WriteRtpPacket(pk)
		ctl.Settle()
	}
	feed := func() {
		q := reqs[nextReq]
		nextReq++
		m := c13methods[q.At(0).Int()]
		respMsgs = append(respMsgs, L(B(intended(m, q.At(1).Str()))))
		sc.in <- c13request(m, q.At(1).Str(), "")
		ctl.Settle()
	}
	inWrite := func(st string) bool { return st == "sock.write" || st == "rtpwrite.prefix" }
	observe := func() {
		// both writers inside their write sections at the same time (meaningful on TCP, where
		// Packet.Write goes to the shared connection)
		if !ws && inWrite(ctl.Status("media")) && ctl.Status("req") == "sock.write" {
			overlap++
		}
	}
	parked := func(name string) bool {
		st := ctl.Status(name)
		return st != "" && st != "done" && st != "blocked"
	}
	step := func(name string) {
		ctl.Step(name)
		observe()
	}

	atomic.StoreInt32(&armed, 1)
	expect := int64(-1) // scenario flag: 1 = the other writer was blocked as the lock demands, 0 = it was not
	guard := 0
	switch scenario {
	case 0: // (a) media parked between prefix and payload; the request goroutine must wait
		if len(pkts) > 0 && len(reqs) > 0 {
			publish()
			for guard = 0; guard < 50 && ctl.Status("media") != "rtpwrite.prefix" && parked("media"); guard++ {
				step("media")
			}
			if ctl.Status("media") == "rtpwrite.prefix" {
				// the prefix (with len(p.Data)) is out, the body not yet read: the demuxer works on the packet now
				for guard = 0; guard < 8 && parked("demux"); guard++ {
					step("demux")
				}
				before, _ := sc.snapshot()
				feed()
				observe()
				after, _ := sc.snapshot()
				if !ws {
					expect = 0
					if ctl.Status("req") == "blocked" && len(after) == len(before) {
						expect = 1
					}
				}
			} else {
				note = "media never reached rtpwrite.prefix: " + ctl.Status("media")
			}
		}
	case 1: // (b) request goroutine parked inside a socket write of its response; media must wait
		if len(pkts) > 0 && len(reqs) > 0 {
			feed()
			if ctl.Status("req") == "sock.write" {
				before, _ := sc.snapshot()
				publish()
				if ctl.Status("media") == "consume.got" {
					step("media")
				}
				if ws && ctl.Status("media") == "rtpwrite.prefix" {
					step("media") // ws frames are assembled in a private buffer first; the lock is taken for the one Write
				}
				after, _ := sc.snapshot()
				expect = 0
				if ctl.Status("media") == "blocked" && len(after) == len(before) {
					expect = 1
				}
				// keep the responder parked through the rest of its response (the Flush is its
				// last socket write) while the media goroutine stays runnable
				for guard = 0; guard < 50 && ctl.Status("req") == "sock.write"; guard++ {
					step("req")
					for k := 0; k < 8 && parked("media") && ctl.Status("req") == "sock.write"; k++ {
						step("media")
					}
				}
			} else {
				note = "responder not parked in a socket write: " + ctl.Status("req")
			}
		}
	}
	// the rest of the schedule: scripted choices, then a fair drain
	si := 0
	for guard = 0; guard < 4000; guard++ {
		acts := []byte{}
		if parked("media") {
			acts = append(acts, 'M')
		}
		if parked("req") {
			acts = append(acts, 'R')
		}
		if parked("demux") {
			acts = append(acts, 'D')
		}
		if nextPkt < len(pkts) {
			acts = append(acts, 'P')
		}
		if nextReq < len(reqs) {
			acts = append(acts, 'Q')
		}
		if len(acts) == 0 {
			break
		}
		a := acts[0]
		if si < len(schedule) {
			a = acts[int(schedule[si].Int())%len(acts)]
			si++
		}
		switch a {
		case 'M':
			step("media")
		case 'R':
			step("req")
		case 'D':
			step("demux")
		case 'P':
			publish()
			observe()
		case 'Q':
			feed()
			observe()
		}
	}
	ctl.Finish()
	// a last request flushes whatever the connection still has queued
	respMsgs = append(respMsgs, L(B(intended("OPTIONS", "990099"))))
	sc.in <- c13request("OPTIONS", "990099", "")
	ctl.Settle()

	end, endWrites := sc.snapshot()
	sink := end[len(start):]
	sc.mu.Lock()
	ws_ := []Val{}
	for _, w := range sc.writes[startWrites:endWrites] {
		ws_ = append(ws_, B(w))
	}
	sc.mu.Unlock()
	nf, nr, pok := c13parse(sink)
	// purity probe: the published packets after everybody (viewers, demuxer) is done with them
	after, padChanged := []Val{}, int64(0)
	for i, pk := range published {
		after = append(after, B(append([]byte(nil), pk.Data...)))
		if pk.Padding != pubPad[i] {
			padChanged++
		}
	}
	return L(B(sink), L(frameMsgs...), L(respMsgs...), L(I(nf), I(nr), Bo(pok)), I(overlap), I(expect), L(ws_...), S(note),
		L(L(pubData...), L(after...), I(padChanged)))
}

func init() { commands["C13_session"] = c13session }
