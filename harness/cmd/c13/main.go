package main

import (
	"net"
	"time"

	"github.com/cnotch/ipchub/network/socket/buffered"

	. "vh/lib"
	"vh/transports"
)

// scripted socket: records everything written
type sink struct{ got []byte }

func (s *sink) Read(p []byte) (int, error)         { return 0, nil }
func (s *sink) Write(p []byte) (int, error)        { s.got = append(s.got, p...); return len(p), nil }
func (s *sink) Close() error                       { return nil }
func (s *sink) LocalAddr() net.Addr                { return &net.TCPAddr{} }
func (s *sink) RemoteAddr() net.Addr               { return &net.TCPAddr{} }
func (s *sink) SetDeadline(t time.Time) error      { return nil }
func (s *sink) SetReadDeadline(t time.Time) error  { return nil }
func (s *sink) SetWriteDeadline(t time.Time) error { return nil }

// case = (size ops rate); ops = (0 bytes verdict-ignored) | (1)
// observed = after every op: (bytes that reached the socket so far, conn.Buffered())
func bconn(c Val) Val {
	sk := &sink{}
	rate := int(c.At(2).Int())
	if rate <= 0 {
		rate = 50
	}
	conn := buffered.NewConn(sk, buffered.BufferSize(int(c.At(0).Int())), buffered.FlushRate(rate))
	outs := []Val{}
	for _, op := range c.At(1).List() {
		switch op.At(0).Int() {
		case 0:
			conn.Write(op.At(1).Bytes())
		case 2:
			// drain the limiter's allowance with empty writes, then wait so that a few tokens come back:
			// the following writes see both verdicts, including "not limited" with a non-empty buffer
			for i := 0; i < 1100; i++ {
				conn.Write(nil)
			}
			time.Sleep(time.Duration(op.At(1).Int()) * time.Microsecond)
		default:
			conn.Flush()
		}
		outs = append(outs, L(B(append([]byte(nil), sk.got...)), I(int64(conn.Buffered()))))
	}
	return L(outs...)
}

var commands = map[string]func(Val) Val{"C13_bconn": bconn, "C13_two": transports.RunTwoTCP}

func main() { Main(commands) }
