package main

// Waiting without time dependence: the harness observes the code under test only when the
// process is quiescent (every other goroutine is blocked: the pipelines have drained), or on the
// awaited event itself.  Time limits are generous (2 minutes) and only ever reached when the
// machine cannot schedule us; a case that hits one without positive evidence of damage is
// reported as "!uneval", never as a failure.

import (
	"bytes"
	"os"
	"runtime"
	"strconv"
	"strings"
	"time"

	. "vh/lib"
)

const longBound = 120 * time.Second

var debugQ = os.Getenv("VH_DEBUGQ") != ""

var blockedStates = []string{"chan receive", "chan send", "select", "sync.Cond.Wait", "sync.Mutex.Lock",
	"sync.RWMutex", "semacquire", "IO wait", "sleep", "sync.WaitGroup.Wait", "finalizer wait", "GC worker",
	"GC sweep wait", "GC scavenge wait", "force gc", "syscall"}

var dumpBuf = make([]byte, 1<<18) // only the harness's main goroutine takes dumps

func stackDump() []byte {
	for {
		n := runtime.Stack(dumpBuf, true)
		if n < len(dumpBuf) {
			return dumpBuf[:n]
		}
		dumpBuf = make([]byte, 2*len(dumpBuf))
	}
}

func selfID() int64 {
	buf := make([]byte, 64)
	buf = buf[:runtime.Stack(buf, false)]
	f := bytes.Fields(buf)
	if len(f) < 2 {
		return -1
	}
	id, _ := strconv.ParseInt(string(f[1]), 10, 64)
	return id
}

// othersBlocked: every goroutine but the caller is in a blocked state
func othersBlocked() bool {
	self := selfID()
	for _, blk := range bytes.Split(stackDump(), []byte("\n\n")) {
		if !bytes.HasPrefix(blk, []byte("goroutine ")) {
			continue
		}
		line := blk
		if i := bytes.IndexByte(blk, '\n'); i >= 0 {
			line = blk[:i]
		}
		sp := bytes.IndexByte(line[10:], ' ')
		if sp < 0 {
			continue
		}
		id, _ := strconv.ParseInt(string(line[10:10+sp]), 10, 64)
		if id == self {
			continue
		}
		lb, rb := bytes.IndexByte(line, '['), bytes.LastIndexByte(line, ']')
		if lb < 0 || rb < lb {
			continue
		}
		st := string(line[lb+1 : rb])
		ok := false
		for _, b := range blockedStates {
			if strings.HasPrefix(st, b) {
				ok = true
				break
			}
		}
		if !ok {
			if debugQ {
				println("not blocked:", st)
			}
			return false
		}
	}
	return true
}

// quiesce waits until the process is quiescent (three consecutive samples); false = not reached within the long bound
func quiesce() bool {
	deadline := time.Now().Add(longBound)
	stable := 0
	spins := 0
	for {
		runtime.Gosched()
		if othersBlocked() {
			stable++
			if stable >= 3 {
				return true
			}
		} else {
			stable = 0
		}
		if time.Now().After(deadline) {
			return false
		}
		pause(&spins)
	}
}

// pause between two looks at the goroutine states (a look stops the world: do not spin on it)
func pause(spins *int) {
	*spins++
	time.Sleep(100 * time.Microsecond)
}

// awaitOrIdle: the event (done) or the logged death of the worker (died) — or the process has gone
// idle without the event, which means the item was lost with its worker (dead).  uneval = long bound hit.
func awaitOrIdle(done, died <-chan struct{}) (dead, uneval bool) {
	deadline := time.Now().Add(longBound)
	for {
		select {
		case <-done:
			return false, false
		case <-died:
			return true, false
		case <-time.After(time.Millisecond):
		}
		if othersBlocked() && othersBlocked() && othersBlocked() {
			select {
			case <-done:
				return false, false
			default:
				return true, false // idle, and the end marker never came out
			}
		}
		if time.Now().After(deadline) {
			return false, true
		}
	}
}

func unevalVal(why string) Val { return L(S("!uneval"), S(why)) }
