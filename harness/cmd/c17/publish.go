package main

// C17 "publish" stream: histories on the real media.GetOrCreate / Get / Regist / Unregist and
// route.Save / Del / All.  The pull factories of a case are installed with
// media.VerifSetPullStreamFactories: recording fakes that trust the localPath they are handed
// (they build a media.Stream under it and register it, as the interface contract allows) and the
// real RTSP pull factory, wrapped only to record its arguments, talking to a loopback fake camera
// that records the URL it is asked to DESCRIBE.

import (
	"bufio"
	"fmt"
	"io"
	"net"
	"sort"
	"strconv"
	"strings"
	"sync"
	"time"

	. "vh/lib"

	"github.com/cnotch/ipchub/config"
	"github.com/cnotch/ipchub/media"
	"github.com/cnotch/ipchub/provider/route"
	"github.com/cnotch/ipchub/service/rtsp"
	"github.com/cnotch/scheduler"
	"github.com/cnotch/xlog"
)

const (
	camHost  = "cam.test"  // stands for the loopback fake camera in route URLs
	deadHost = "dead.test" // stands for a loopback port nobody listens on
	pubSDP   = "v=0\r\no=- 0 0 IN IP4 127.0.0.1\r\ns=No Name\r\nc=IN IP4 127.0.0.1\r\nt=0 0\r\n" +
		"m=video 0 RTP/AVP 96\r\na=rtpmap:96 H264/90000\r\n" +
		"a=fmtp:96 packetization-mode=1; sprop-parameter-sets=Z2QAH6zZQFAFuhAAAAMAEAAAAwPI8YMZYA==,aO+8sA==; profile-level-id=64001F\r\n" +
		"a=control:trackID=0\r\n"
)

// ---------------------------------------------------------------- fake camera
type pubCamera struct {
	ln        net.Listener
	addr      string
	mu        sync.Mutex
	described []string
	conns     []net.Conn
}

func (c *pubCamera) loop() {
	for {
		conn, err := c.ln.Accept()
		if err != nil {
			return
		}
		c.mu.Lock()
		c.conns = append(c.conns, conn)
		c.mu.Unlock()
		go c.serve(conn)
	}
}

func (c *pubCamera) serve(conn net.Conn) {
	defer conn.Close()
	br := bufio.NewReader(conn)
	for {
		line, err := br.ReadString('\n')
		if err != nil {
			return
		}
		parts := strings.Fields(line)
		if len(parts) < 3 {
			continue // interleaved data or noise: not used by this camera
		}
		method, url := parts[0], parts[1]
		cseq, clen := "", 0
		for {
			h, err := br.ReadString('\n')
			if err != nil {
				return
			}
			h = strings.TrimRight(h, "\r\n")
			if h == "" {
				break
			}
			if i := strings.IndexByte(h, ':'); i > 0 {
				switch strings.ToLower(strings.TrimSpace(h[:i])) {
				case "cseq":
					cseq = strings.TrimSpace(h[i+1:])
				case "content-length":
					clen, _ = strconv.Atoi(strings.TrimSpace(h[i+1:]))
				}
			}
		}
		if clen > 0 {
			io.CopyN(io.Discard, br, int64(clen))
		}
		head := "RTSP/1.0 200 OK\r\nCSeq: " + cseq + "\r\nServer: c17-camera\r\n"
		switch method {
		case "OPTIONS":
			io.WriteString(conn, head+"Public: OPTIONS, DESCRIBE, SETUP, PLAY, TEARDOWN\r\n\r\n")
		case "DESCRIBE":
			c.mu.Lock()
			c.described = append(c.described, url)
			c.mu.Unlock()
			io.WriteString(conn, head+"Content-Type: application/sdp\r\nContent-Length: "+strconv.Itoa(len(pubSDP))+"\r\n\r\n"+pubSDP)
		case "SETUP":
			io.WriteString(conn, head+"Transport: RTP/AVP/TCP;unicast;interleaved=0-1\r\nSession: 17C17C17;timeout=60\r\n\r\n")
		case "PLAY":
			io.WriteString(conn, head+"Session: 17C17C17\r\nRange: npt=0.000-\r\n\r\n")
		default:
			io.WriteString(conn, head+"\r\n")
		}
	}
}

func (c *pubCamera) take() []string {
	c.mu.Lock()
	defer c.mu.Unlock()
	d := c.described
	c.described = nil
	return d
}

func (c *pubCamera) hangUp() {
	c.mu.Lock()
	cs := c.conns
	c.conns = nil
	c.mu.Unlock()
	for _, x := range cs {
		x.Close()
	}
}

var (
	pubOnce sync.Once
	pubCam  *pubCamera
	pubDead string
)

func pubSetup() {
	pubOnce.Do(func() {
		xlog.ReplaceGlobal(xlog.New(xlog.NewNopCore()))
		config.VerifSetNetTimeout(3 * time.Second)
		ln, err := net.Listen("tcp", "127.0.0.1:0")
		if err != nil {
			panic(err)
		}
		pubCam = &pubCamera{ln: ln, addr: ln.Addr().String()}
		go pubCam.loop()
		l, err := net.Listen("tcp", "127.0.0.1:0")
		if err != nil {
			panic(err)
		}
		pubDead = l.Addr().String()
		l.Close()
	})
}

// the symbolic hosts of the case <-> loopback addresses (an address is not an observable)
func toReal(u string) string {
	u = strings.Replace(u, "//"+camHost, "//"+pubCam.addr, 1)
	return strings.Replace(u, "//"+deadHost, "//"+pubDead, 1)
}
func toSym(u string) string {
	u = strings.Replace(u, "//"+pubCam.addr, "//"+camHost, 1)
	return strings.Replace(u, "//"+pubDead, "//"+deadHost, 1)
}

// ---------------------------------------------------------------- factories
type pubWorld struct {
	ids   map[*media.Stream]int64
	next  int64
	calls []pubCall // Create calls of the current operation
}
type pubCall struct {
	fi        int
	lp, url   string
	ok        bool
	s         *media.Stream
}

func (w *pubWorld) id(s *media.Stream) int64 {
	if s == nil {
		return -1
	}
	if n, ok := w.ids[s]; ok {
		return n
	}
	return -2 // a stream this history never created
}
func (w *pubWorld) name(s *media.Stream) {
	if _, ok := w.ids[s]; !ok {
		w.ids[s] = w.next
		w.next++
	}
}

// recording fake: trusts its localPath argument
type fakeFactory struct {
	w         *pubWorld
	fi        int
	can, fail string
}

func (f *fakeFactory) Can(u string) bool { return strings.HasPrefix(u, f.can) }
func (f *fakeFactory) Create(lp, u string) (*media.Stream, error) {
	if f.fail != "" && strings.HasPrefix(u, f.fail) {
		f.w.calls = append(f.w.calls, pubCall{fi: f.fi, lp: lp, url: u})
		return nil, fmt.Errorf("fake camera %s does not answer", u)
	}
	s := media.NewStream(lp, pubSDP)
	media.Regist(s)
	f.w.calls = append(f.w.calls, pubCall{fi: f.fi, lp: lp, url: u, ok: true, s: s})
	return s, nil
}

// the real RTSP pull factory; the wrapper only records what it is handed and what it answers
type realFactory struct {
	w     *pubWorld
	fi    int
	inner media.PullStreamFactory
}

func (f *realFactory) Can(u string) bool { return f.inner.Can(u) }
func (f *realFactory) Create(lp, u string) (*media.Stream, error) {
	s, err := f.inner.Create(lp, u)
	f.w.calls = append(f.w.calls, pubCall{fi: f.fi, lp: lp, url: u, ok: err == nil, s: s})
	return s, err
}

func pubWait(d time.Duration, f func() bool) bool {
	end := time.Now().Add(d)
	for !f() {
		if time.Now().After(end) {
			return false
		}
		time.Sleep(200 * time.Microsecond)
	}
	return true
}


// idle-close tasks currently posted: stream -> close status
func idleTasks() map[*media.Stream][]int32 {
	m := map[*media.Stream][]int32{}
	for _, j := range scheduler.Jobs() {
		if s, st, ok := media.VerifIdleTask(j.Schelule()); ok {
			m[s] = append(m[s], st)
		}
	}
	return m
}
func cancelIdleTasks() {
	for _, j := range scheduler.Jobs() {
		if _, _, ok := media.VerifIdleTask(j.Schelule()); ok {
			j.Cancel()
		}
	}
}

func pubCase(c Val) Val {
	pubSetup()
	route.Reset(c17mem{})
	media.UnregistAll()
	cancelIdleTasks()
	pubCam.take()
	w := &pubWorld{ids: map[*media.Stream]int64{}}
	var fs []media.PullStreamFactory
	for i, fv := range c.At(0).List() {
		if fv.At(0).Int() == 0 {
			fs = append(fs, &realFactory{w: w, fi: i, inner: rtsp.NewPullStreamFacotry()})
		} else {
			fs = append(fs, &fakeFactory{w: w, fi: i, can: fv.At(1).Str(), fail: fv.At(2).Str()})
		}
	}
	old := media.VerifSetPullStreamFactories(fs)
	defer func() {
		media.VerifSetPullStreamFactories(old)
		pubCam.hangUp()
		media.UnregistAll()
		cancelIdleTasks()
	}()

	opt := func(s *media.Stream) Val {
		if s == nil {
			return L()
		}
		return L(I(w.id(s)))
	}
	outs := []Val{}
	for _, op := range c.At(1).List() {
		switch op.At(0).Int() {
		case 0:
			r := op.At(1)
			route.Save(&route.Route{Pattern: r.At(0).Str(), URL: toReal(r.At(1).Str()), KeepAlive: r.At(2).Bool()})
			outs = append(outs, L(I(0)))
		case 1:
			route.Del(op.At(1).Str())
			outs = append(outs, L(I(0)))
		case 2: // a publisher
			s := media.NewStream(op.At(1).Str(), pubSDP)
			w.name(s)
			media.Regist(s)
			outs = append(outs, L(I(1), I(w.id(s))))
		case 3: // close what is registered under the path
			s := media.Get(op.At(1).Str())
			if s != nil {
				media.Unregist(s)
			}
			outs = append(outs, L(I(2), opt(s)))
		case 4:
			r := pubRequest(w, op.At(1).Str())
			// the whole registry after the request: exact keys and the streams under them (newest stream first)
			outs = append(outs, L(append(r.List(), regSnapshot(w))...))
		case 5:
			outs = append(outs, L(I(2), opt(media.Get(op.At(1).Str()))))
		default:
			all := []Val{}
			for _, r := range route.All() {
				all = append(all, L(S(r.Pattern), S(toSym(r.URL)), Bo(r.KeepAlive)))
			}
			outs = append(outs, L(I(4), L(all...)))
		}
	}
	return L(outs...)
}

// registry snapshot ordered by stream id, newest first (the order of the model's association list:
// every stream is registered once, when it is created, in front of the list)
func regSnapshot(w *pubWorld) Val {
	type ent struct {
		k  string
		id int64
	}
	var es []ent
	for k, s := range media.VerifRegistry() {
		es = append(es, ent{k, w.id(s)})
	}
	sort.Slice(es, func(i, j int) bool {
		if es[i].id != es[j].id {
			return es[i].id > es[j].id
		}
		return es[i].k < es[j].k
	})
	vs := []Val{}
	for _, e := range es {
		vs = append(vs, L(S(e.k), I(e.id)))
	}
	return L(vs...)
}

// one GetOrCreate and everything observable about it
func pubRequest(w *pubWorld, path string) (out Val) {
	w.calls = nil
	before := idleTasks()
	defer func() {
		if r := recover(); r != nil {
			out = L(I(3), L(I(4)), L(), L())
		}
	}()
	s := media.GetOrCreate(path)
	after := idleTasks()
	seen := []Val{}
	for _, u := range pubCam.take() {
		u = strings.Replace(u, "%20", " ", -1) // the client escapes a blank inside the path; the generator never writes %20 itself
		seen = append(seen, S(toSym(u)))
	}
	sid := func() Val {
		if s == nil {
			return L()
		}
		return L(I(w.id(s)))
	}
	switch {
	case len(w.calls) == 0 && s == nil:
		return L(I(3), L(I(0)), L(), L(seen...))
	case len(w.calls) == 0:
		// served from the registry: no task may have been started by the request
		if len(after[s]) != len(before[s]) {
			return L(I(3), L(I(9), S("idle task started for an existing stream")), sid(), L(seen...))
		}
		return L(I(3), L(I(1), I(w.id(s))), sid(), L(seen...))
	case len(w.calls) > 1:
		return L(I(3), L(I(9), S(fmt.Sprintf("%d Create calls for one request", len(w.calls)))), sid(), L(seen...))
	}
	call := w.calls[0]
	if !call.ok {
		if s != nil {
			return L(I(3), L(I(9), S("stream returned although Create failed")), sid(), L(seen...))
		}
		return L(I(3), L(I(3), S(call.lp), S(toSym(call.url)), I(int64(call.fi))), L(), L(seen...))
	}
	if s != call.s || s == nil {
		return L(I(3), L(I(9), S("the stream returned is not the one the factory created")), sid(), L(seen...))
	}
	w.name(s)
	// the real factory registers from its own goroutine: wait until the stream is listed
	// (the model's "create + registration" is one step)
	if !pubWait(3*time.Second, func() bool { return media.Get(s.Path()) == s }) {
		return L(I(3), L(I(9), S("created stream never registered under its own path "+s.Path())), sid(), L(seen...))
	}
	// keep-alive: no idle-close task; otherwise exactly one new task, for this stream, closing as "no consumer"
	newTasks := after[s][len(before[s]):]
	var keep Val
	switch {
	case len(newTasks) == 0:
		keep = I(1)
	case len(newTasks) == 1 && newTasks[0] == media.StreamNoConsumer:
		keep = I(0)
	default:
		return L(I(3), L(I(9), S(fmt.Sprintf("idle tasks started: %v", newTasks))), sid(), L(seen...))
	}
	for o, ts := range after {
		if o != s && len(ts) != len(before[o]) {
			return L(I(3), L(I(9), S("idle task started for another stream")), sid(), L(seen...))
		}
	}
	return L(I(3), L(I(2), S(call.lp), S(toSym(call.url)), I(int64(call.fi)), keep), sid(), L(seen...))
}

func init() {
	commands["C17_publish"] = pubCase
}
