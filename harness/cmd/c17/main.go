package main

import (
	. "vh/lib"

	"github.com/cnotch/ipchub/provider/route"
	"github.com/cnotch/ipchub/utils"
)

// memory provider so every case starts from an empty table
type c17mem struct{}

func (c17mem) LoadAll() ([]*route.Route, error)                               { return nil, nil }
func (c17mem) Flush(full []*route.Route, saves, removes []*route.Route) error { return nil }

func encRoute(r *route.Route) Val { return L(S(r.Pattern), S(r.URL), Bo(r.KeepAlive)) }

func c17Match(path string) (out Val) {
	defer func() {
		if recover() != nil {
			out = L(I(1), L(I(2)))
		}
	}()
	r := route.Match(path)
	if r == nil {
		return L(I(1), L(I(0)))
	}
	return L(I(1), L(I(1), encRoute(r)))
}

var commands = map[string]func(Val) Val{}

func main() { Main(commands) }

func init() {
	commands["C17"] = func(c Val) Val {
		route.Reset(c17mem{})
		outs := []Val{}
		for _, op := range c.List() {
			switch op.At(0).Int() {
			case 0:
				r := op.At(1)
				route.Save(&route.Route{Pattern: r.At(0).Str(), URL: r.At(1).Str(), KeepAlive: r.At(2).Bool()})
				outs = append(outs, L(I(0)))
			case 1:
				route.Del(op.At(1).Str())
				outs = append(outs, L(I(0)))
			case 2:
				// repeat the lookup so Go's map randomisation is exercised; all answers must agree
				first := c17Match(op.At(1).Str())
				for i := 0; i < 4; i++ {
					if again := c17Match(op.At(1).Str()); again.String() != first.String() {
						first = L(I(1), L(I(3), first, again)) // order-dependent answer
					}
				}
				outs = append(outs, first)
			case 3:
				r := route.Get(op.At(1).Str())
				if r == nil {
					outs = append(outs, L(I(2), L()))
				} else {
					outs = append(outs, L(I(2), L(encRoute(r))))
				}
			default:
				all := []Val{}
				for _, r := range route.All() {
					all = append(all, encRoute(r))
				}
				outs = append(outs, L(I(3), L(all...)))
			}
		}
		return L(outs...)
	}
	commands["strgo_canon"] = func(c Val) Val { return S(utils.CanonicalPath(c.Str())) }
}
