package main

import (
	"github.com/cnotch/ipchub/media"

	. "vh/lib"
)

// ( type seed ) -> ( Type(id) Sequence(id) seed-afterwards ) of media.NewCID
func init() {
	commands["C05_cid"] = func(c Val) Val {
		seed := uint32(c.At(1).Int())
		id := media.NewCID(media.PacketType(c.At(0).Int()), &seed)
		return L(I(int64(id.Type())), I(int64(id.Sequence())), I(int64(seed)))
	}
}
