package main

import (
	"sync"
	"time"

	"github.com/cnotch/ipchub/media"
	"github.com/cnotch/xlog"

	. "vh/lib"
	"vh/sched"
)

const sdpVideo = "v=0\r\no=- 0 0 IN IP4 127.0.0.1\r\ns=t\r\nc=IN IP4 127.0.0.1\r\nt=0 0\r\n" +
	"m=video 0 RTP/AVP 96\r\na=rtpmap:96 H264/90000\r\n" +
	"a=fmtp:96 packetization-mode=1; sprop-parameter-sets=Z2QAH6zZQFAFuhAAAAMAEAAAAwPI8YMZYA==,aO+8sA==; profile-level-id=64001F\r\n" +
	"a=control:streamid=0\r\n"

// H.264 only: no TS muxer, hence no HLS playlist
const sdpNoHls = sdpVideo

// H.264 + AAC: the stream gets an HLS playlist
const sdpH264 = sdpVideo + "m=audio 0 RTP/AVP 97\r\na=rtpmap:97 MPEG4-GENERIC/44100/2\r\n" +
	"a=fmtp:97 profile-level-id=1;mode=AAC-hbr;sizelength=13;indexlength=3;indexdeltalength=3; config=121056E500\r\n" +
	"a=control:streamid=1\r\n"

type nopConsumer struct{}

func (nopConsumer) Consume(p media.Pack) {}
func (nopConsumer) Close() error         { return nil }

var quiet sync.Once

// history of registry operations on the real media package
func history(c Val) Val {
	quiet.Do(func() { xlog.ReplaceGlobal(xlog.New(xlog.NewNopCore())) })
	media.VerifResetRegistry()
	var streams []*media.Stream
	idOf := func(s *media.Stream) Val {
		for i, x := range streams {
			if x == s {
				return L(I(int64(i)))
			}
		}
		return L(I(-1))
	}
	type att struct{ rtp, flv []media.CID }
	atts := map[int]*att{}
	outs := []Val{}
	for _, op := range c.At(1).List() {
		a := op.At(1)
		i := int(a.Int())
		valid := i >= 0 && i < len(streams)
		switch op.At(0).Int() {
		case 0:
			sdp := sdpNoHls
			if op.At(2).Bool() {
				sdp = sdpH264
			}
			ns := media.NewStream(a.Str(), sdp)
			if (ns.Hlsable() != nil) != op.At(2).Bool() {
				panic("c05: HLS capability of the test stream is not what the case asked for")
			}
			streams = append(streams, ns)
			atts[len(streams)-1] = &att{}
			outs = append(outs, L(I(0)))
		case 1:
			if valid {
				media.Regist(streams[i])
			}
			outs = append(outs, L(I(0)))
		case 2:
			if valid {
				media.Unregist(streams[i])
			}
			outs = append(outs, L(I(0)))
		case 3:
			if valid {
				streams[i].Close()
			}
			outs = append(outs, L(I(0)))
		case 4:
			s := media.Get(a.Str())
			if s == nil {
				outs = append(outs, L(I(1), L()))
			} else {
				outs = append(outs, L(I(1), idOf(s)))
			}
		case 5:
			sc, cc := media.Count()
			outs = append(outs, L(I(2), I(int64(sc)), I(int64(cc))))
		case 6:
			_, infos := media.Infos("", 1000, false)
			ps := []Val{}
			for _, si := range infos {
				ps = append(ps, S(si.Path))
			}
			outs = append(outs, L(I(3), L(ps...)))
		case 7:
			if valid {
				pt := media.RTPPacket
				if op.At(2).Bool() {
					pt = media.FLVPacket
				}
				cid := streams[i].StartConsume(nopConsumer{}, pt, "c05")
				if media.VerifStatus(streams[i]) == media.StreamOK {
					if op.At(2).Bool() {
						atts[i].flv = append(atts[i].flv, cid)
					} else {
						atts[i].rtp = append(atts[i].rtp, cid)
					}
				}
			}
			outs = append(outs, L(I(0)))
		case 8:
			if valid && media.VerifStatus(streams[i]) == media.StreamOK {
				l := &atts[i].rtp
				if op.At(2).Bool() {
					l = &atts[i].flv
				}
				if len(*l) > 0 {
					streams[i].StopConsume((*l)[len(*l)-1])
					*l = (*l)[:len(*l)-1]
				}
			}
			outs = append(outs, L(I(0)))
		default:
			closed := false
			if valid {
				d := time.Duration(0) // HLS not accessed within the period
				if op.At(2).Bool() {
					d = time.Hour // accessed recently: the playlist was created moments ago
				}
				if media.VerifStatus(streams[i]) == media.StreamOK {
					closed = media.VerifIdleDecision(streams[i], d, media.StreamNoConsumer)
				}
			}
			outs = append(outs, L(I(4), Bo(closed)))
		}
	}
	for _, s := range streams {
		s.Close()
	}
	media.VerifResetRegistry()
	return L(outs...)
}

// two goroutines racing to register a stream on one path, replayed through the regist.loaded point
func race(c Val) Val {
	quiet.Do(func() { xlog.ReplaceGlobal(xlog.New(xlog.NewNopCore())) })
	media.VerifResetRegistry()
	ctl := sched.New()
	old := media.NewStream("/race", sdpH264)
	a := media.NewStream("/race", sdpH264)
	b := media.NewStream("/race", sdpH264)
	if c.At(0).Bool() {
		media.Regist(old)
	}
	ctl.Settle()
	ctl.Go("a", func() { media.Regist(a) })
	ctl.Go("b", func() { media.Regist(b) })
	for _, t := range c.At(1).List() {
		if t.Int() == 0 {
			ctl.Step("a")
		} else {
			ctl.Step("b")
		}
	}
	ctl.Finish()
	got := media.Get("/race")
	which := int64(-1)
	if got == a {
		which = 0
	} else if got == b {
		which = 1
	}
	live := func(s *media.Stream) Val { return Bo(media.VerifStatus(s) == media.StreamOK) }
	sc, _ := media.Count()
	out := L(I(which), live(old), live(a), live(b), I(int64(sc)))
	old.Close()
	a.Close()
	b.Close()
	media.VerifResetRegistry()
	return out
}

func main() { Main(map[string]func(Val) Val{"C05": history, "C05_race": race}) }
