package main

import (
	"github.com/cnotch/ipchub/media"
	"github.com/cnotch/xlog"

	. "vh/lib"
	"vh/reghist"
	"vh/sched"
)

// two goroutines racing to register a stream on one path, replayed through the regist.loaded point
func race(c Val) Val {
	reghist.Quiet.Do(func() { xlog.ReplaceGlobal(xlog.New(xlog.NewNopCore())) })
	media.VerifResetRegistry()
	ctl := sched.New()
	old := media.NewStream("/race", reghist.SdpH264)
	a := media.NewStream("/race", reghist.SdpH264)
	b := media.NewStream("/race", reghist.SdpH264)
	if c.At(0).Bool() {
		media.Regist(old)
	}
	ctl.Settle()
	ctl.Go("a", func() { media.Regist(a) })
	ctl.Go("b", func() { media.Regist(b) })
	for _, t := range c.At(1).List() {
		if t.Int() == 0 {
			ctl.Step("a")
		} else {
			ctl.Step("b")
		}
	}
	ctl.Finish()
	got := media.Get("/race")
	which := int64(-1)
	if got == a {
		which = 0
	} else if got == b {
		which = 1
	}
	live := func(s *media.Stream) Val { return Bo(media.VerifStatus(s) == media.StreamOK) }
	sc, _ := media.Count()
	out := L(I(which), live(old), live(a), live(b), I(int64(sc)))
	old.Close()
	a.Close()
	b.Close()
	media.VerifResetRegistry()
	return out
}

var commands = map[string]func(Val) Val{"C05": reghist.History, "C05_race": race}

func main() { Main(commands) }
