package main

import (
	. "vh/lib"
	"vh/lts"
)

func main() { Main(map[string]func(Val) Val{"C01_lts": lts.Run}) }
