package main

import (
	. "vh/lib"
	"vh/lts"
	"vh/transports"
)

func main() { Main(map[string]func(Val) Val{"C01_lts": lts.Run, "C01_transports": transports.Run, "C01_pool": transports.RunPool}) }
