package main

import (
	. "vh/lib"

	"github.com/cnotch/ipchub/provider/auth"
)

// memory provider so every case starts from an empty user table
type c16mem struct{}

func (c16mem) LoadAll() ([]*auth.User, error)                             { return nil, nil }
func (c16mem) Flush(full []*auth.User, saves, removes []*auth.User) error { return nil }

var commands = map[string]func(Val) Val{}

func main() { Main(commands) }

func bits(n int, f func(i int) bool) Val {
	out := make([]byte, n)
	for i := 0; i < n; i++ {
		if f(i) {
			out[i] = 1
		}
	}
	return B(out)
}

func init() {
	// ( 0 admin right ( path ... ) ) : the right is installed as the push right and, in a second user, as the
	//     pull right, through auth.Save / auth.Get; both must give the same answer (2 marks a disagreement).
	// ( 1 mask ( path ... ) )        : auth.NewPathMatcher(mask).Match(path)
	commands["C16"] = func(c Val) Val {
		switch c.At(0).Int() {
		case 0:
			admin, right, paths := c.At(1).Bool(), c.At(2).Str(), c.At(3).List()
			auth.Reset(c16mem{})
			if err := auth.Save(&auth.User{Name: "pusher", Password: "p", Admin: admin, PushAccess: right, PullAccess: "/never"}, true); err != nil {
				panic(err)
			}
			if err := auth.Save(&auth.User{Name: "puller", Password: "p", Admin: admin, PushAccess: "/never", PullAccess: right}, true); err != nil {
				panic(err)
			}
			up, ul := auth.Get("pusher"), auth.Get("puller")
			if up == nil || ul == nil {
				panic("saved user not found")
			}
			out := make([]byte, len(paths))
			for i, p := range paths {
				a := up.ValidatePermission(p.Str(), auth.PushRight)
				b := ul.ValidatePermission(p.Str(), auth.PullRight)
				switch {
				case a != b:
					out[i] = 2
				case a:
					out[i] = 1
				}
			}
			return B(out)
		default:
			m := auth.NewPathMatcher(c.At(1).Str())
			paths := c.At(2).List()
			return bits(len(paths), func(i int) bool { return m.Match(paths[i].Str()) })
		}
	}
}
