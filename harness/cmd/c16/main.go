package main

import (
	. "vh/lib"

	"github.com/cnotch/ipchub/provider/auth"
)

// memory provider so every case starts from an empty user table
type c16mem struct{}

func (c16mem) LoadAll() ([]*auth.User, error)                             { return nil, nil }
func (c16mem) Flush(full []*auth.User, saves, removes []*auth.User) error { return nil }

var commands = map[string]func(Val) Val{}

func main() { Main(commands) }

func bits(n int, f func(i int) bool) Val {
	out := make([]byte, n)
	for i := 0; i < n; i++ {
		if f(i) {
			out[i] = 1
		}
	}
	return B(out)
}

func init() {
	// ( 0 admin right ( path ... ) ) : the right is installed as the push right and, in a second user, as the
	//     pull right, through auth.Save / auth.Get; both must give the same answer (2 marks a disagreement).
	// ( 1 mask ( path ... ) )        : auth.NewPathMatcher(mask).Match(path)
	// ( 2 ( save ... ) ( path ... ) ) : see case 2
	commands["C16"] = func(c Val) Val {
		switch c.At(0).Int() {
		case 0:
			admin, right, paths := c.At(1).Bool(), c.At(2).Str(), c.At(3).List()
			auth.Reset(c16mem{})
			if err := auth.Save(&auth.User{Name: "pusher", Password: "p", Admin: admin, PushAccess: right, PullAccess: "/never"}, true); err != nil {
				panic(err)
			}
			if err := auth.Save(&auth.User{Name: "puller", Password: "p", Admin: admin, PushAccess: "/never", PullAccess: right}, true); err != nil {
				panic(err)
			}
			up, ul := auth.Get("pusher"), auth.Get("puller")
			if up == nil || ul == nil {
				panic("saved user not found")
			}
			out := make([]byte, len(paths))
			for i, p := range paths {
				a := up.ValidatePermission(p.Str(), auth.PushRight)
				b := ul.ValidatePermission(p.Str(), auth.PullRight)
				switch {
				case a != b:
					out[i] = 2
				case a:
					out[i] = 1
				}
			}
			return B(out)
		case 2:
			// ( 2 ( ( admin password push pull updatePassword ) ... ) ( path ... ) ): the same user name is
			// saved once per entry through auth.Save; then auth.Get(name).ValidatePermission, push and pull per path
			auth.Reset(c16mem{})
			for _, sv := range c.At(1).List() {
				u := &auth.User{Name: "account", Password: sv.At(1).Str(), Admin: sv.At(0).Bool(),
					PushAccess: sv.At(2).Str(), PullAccess: sv.At(3).Str()}
				if err := auth.Save(u, sv.At(4).Bool()); err != nil {
					panic(err)
				}
			}
			paths := c.At(2).List()
			out := make([]byte, 2*len(paths))
			if u := auth.Get("account"); u != nil {
				for i, p := range paths {
					if u.ValidatePermission(p.Str(), auth.PushRight) {
						out[2*i] = 1
					}
					if u.ValidatePermission(p.Str(), auth.PullRight) {
						out[2*i+1] = 1
					}
				}
			}
			return B(out)
		default:
			m := auth.NewPathMatcher(c.At(1).Str())
			paths := c.At(2).List()
			return bits(len(paths), func(i int) bool { return m.Match(paths[i].Str()) })
		}
	}
}
