// C20 harness: on-demand pull against a scriptable fake camera.
//
// A case is  (cfg rounds):
//   cfg    = (creds tracks sdpkind urlkind keepalive routed split)
//   rounds = list of (again script) ; script = list of reply kinds
// One round = one media.GetOrCreate(path) against a fake RTSP camera (a TCP listener on
// 127.0.0.1:0) that answers the n-th request it reads with the n-th reply kind of the script
// (script[0] is the connect step: anything but ok = connection refused).  After an accepted PLAY
// the rest of the script are play events (ok = an interleaved RTP packet, 401/4xx/5xx = an
// unsolicited response, the others end the connection); an exhausted script = the camera closes.
//
// Observation per round:
//   (outcome requests mid again delivered final)
//   outcome   0 = nil (not found), 1 = a stream with the requested path, 2 = panic, 3 = hang
//   requests  list of (method auth session) as read by the camera
//   mid       (conn registered counter goroutines) once GetOrCreate returned
//   again     a second GetOrCreate while playing returned the same stream without a new connection
//   delivered packets that reached a consumer attached while playing
//   final     (conn registered counter goroutines consumer_closed) after the script ended
package main

import (
	"bufio"
	"bytes"
	"crypto/md5"
	"encoding/base64"
	"encoding/hex"
	"fmt"
	"io"
	"net"
	"os"
	"runtime"
	"runtime/debug"
	"strconv"
	"strings"
	"sync"
	"sync/atomic"
	"syscall"
	"time"

	. "vh/lib"

	"github.com/cnotch/ipchub/config"
	"github.com/cnotch/ipchub/media"
	"github.com/cnotch/ipchub/provider/route"
	_ "github.com/cnotch/ipchub/service/rtsp" // registers the pull stream factory
	"github.com/cnotch/ipchub/stats"
	"github.com/cnotch/ipchub/utils/verifhook"
	"github.com/cnotch/xlog"
)

var commands = map[string]func(Val) Val{}

func main() { Main(commands) }

// reply kinds (shared with Model/C20Pull.v)
const (
	kOk = iota
	kBasic
	kDigest
	kErr4
	kErr5
	kMalformed
	kSilence
	kReset
	kEOF
	kAuthOther
)

const (
	camUser  = "admin"
	camPass  = "s3cret"
	camRealm = "C20 camera"
	camNonce = "5e1f0a7c9d2b4e38"
	camSess  = "5EA2A41D"
)

const sdpHead = "v=0\r\no=- 0 0 IN IP4 127.0.0.1\r\ns=No Name\r\nc=IN IP4 127.0.0.1\r\nt=0 0\r\n"
const sdpVideo = "m=video 0 RTP/AVP 96\r\na=rtpmap:96 H264/90000\r\na=fmtp:96 packetization-mode=1; sprop-parameter-sets=Z2QAH6zZQFAFuhAAAAMAEAAAAwPI8YMZYA==,aO+8sA==; profile-level-id=64001F\r\n"
const sdpAudio = "m=audio 0 RTP/AVP 97\r\na=rtpmap:97 MPEG4-GENERIC/44100/2\r\na=fmtp:97 profile-level-id=1;mode=AAC-hbr;sizelength=13;indexlength=3;indexdeltalength=3; config=121056E500\r\n"

func sdpFor(tracks, kind int64) string {
	switch kind {
	case 1: // not an SDP description at all
		return "this is not an SDP description\r\n"
	case 2: // a media line without any format
		return sdpHead + "m=video 0 udp 33\r\na=control:trackID=0\r\n"
	}
	s := sdpHead
	if tracks&1 != 0 {
		s += sdpVideo + "a=control:trackID=0\r\n"
	}
	if tracks&2 != 0 {
		s += sdpAudio + "a=control:trackID=1\r\n"
	}
	return s
}

type mem struct{}

func (mem) LoadAll() ([]*route.Route, error)                               { return nil, nil }
func (mem) Flush(full []*route.Route, saves, removes []*route.Route) error { return nil }

// ---------------------------------------------------------------- fake camera
type reqRec struct {
	method  string
	auth    int64 // 0 none 1 basic/plain 2 basic/md5 3 digest/plain 4 digest/md5 5 anything else
	session bool
	url     string
}

type camera struct {
	ln       net.Listener
	mu       sync.Mutex
	script   []int64
	pos      int
	reqs     []reqRec
	accepted int
	open     int32 // camera-side connections not yet closed by the camera
	peerGone int32 // connections on which the camera saw the peer's close
	sdp      string
	gate     chan struct{} // closed by the harness to let the play events run
	sent     int32         // RTP packets written in the play phase
	playDone chan struct{} // closed when a connection handler returns
	seqno    uint16
	conc     bool          // concurrency scenario: every request is answered ok, play = one packet at [kick], close at [gate]
	kick     chan struct{}
	repl     bool           // replaced-pull scenario: each connection is gated and commanded on its own
	arrived  chan *camConn  // a connection whose first request has been read
	pinging  bool           // play phase that ends in a silence: keep the line busy until the silence starts
	split    bool           // an answer with a body goes out in two segments (headers + half of the body, then the rest)
}

// one camera connection of the replaced-pull scenario
type camConn struct {
	gate chan struct{} // closed: answer the handshake
	cmd  chan int64    // play phase: -1 = send a packet, otherwise the reply kind that ends the connection
	done chan struct{} // closed when the handler has returned
}

func (c *camera) next() int64 {
	c.mu.Lock()
	defer c.mu.Unlock()
	if c.conc || c.repl {
		return kOk
	}
	if c.pos >= len(c.script) {
		return kEOF
	}
	k := c.script[c.pos]
	c.pos++
	return k
}

// the next script item (the reply to the next request) is a silence
func (c *camera) nextIsSilence() bool {
	c.mu.Lock()
	defer c.mu.Unlock()
	return !c.conc && !c.repl && c.pos < len(c.script) && c.script[c.pos] == kSilence
}

// the play phase that starts now ends in a silence (the first event that is not a packet or an unsolicited response)
func (c *camera) playEndsInSilence() bool {
	c.mu.Lock()
	defer c.mu.Unlock()
	if c.conc || c.repl {
		return false
	}
	for _, k := range c.script[c.pos:] {
		switch k {
		case kOk, kBasic, kDigest, kAuthOther, kErr4, kErr5:
			continue
		}
		return k == kSilence
	}
	return false
}

func md5hex(s string) string { d := md5.Sum([]byte(s)); return hex.EncodeToString(d[:]) }

func digestResponse(method, uri, pw string) string {
	return md5hex(md5hex(camUser+":"+camRealm+":"+pw) + ":" + camNonce + ":" + md5hex(method+":"+uri))
}

func unq(s string) string { return strings.Trim(strings.TrimSpace(s), "\"") }

func classifyAuth(method, reqURL, h string) int64 {
	if h == "" {
		return 0
	}
	if strings.HasPrefix(h, "Basic ") {
		raw, err := base64.StdEncoding.DecodeString(strings.TrimSpace(h[6:]))
		if err != nil {
			return 5
		}
		switch string(raw) {
		case camUser + ":" + camPass:
			return 1
		case camUser + ":" + md5hex(camPass):
			return 2
		}
		return 5
	}
	if strings.HasPrefix(h, "Digest ") {
		f := map[string]string{}
		for _, part := range strings.Split(h[7:], ",") {
			kv := strings.SplitN(part, "=", 2)
			if len(kv) == 2 {
				f[strings.TrimSpace(kv[0])] = unq(kv[1])
			}
		}
		if f["username"] != camUser || f["realm"] != camRealm || f["nonce"] != camNonce || f["uri"] != reqURL {
			return 5
		}
		switch f["response"] {
		case digestResponse(method, reqURL, camPass):
			return 3
		case digestResponse(method, reqURL, md5hex(camPass)):
			return 4
		}
		return 5
	}
	return 5
}

// reads one RTSP request; returns false when the peer is gone
func (c *camera) readRequest(br *bufio.Reader) (reqRec, string, bool) {
	var rec reqRec
	line, err := br.ReadString('\n')
	if err != nil {
		return rec, "", false
	}
	parts := strings.Fields(line)
	if len(parts) < 3 {
		return rec, "", false
	}
	rec.method, rec.url = parts[0], parts[1]
	cseq := ""
	clen := 0
	authz := ""
	for {
		h, err := br.ReadString('\n')
		if err != nil {
			return rec, "", false
		}
		h = strings.TrimRight(h, "\r\n")
		if h == "" {
			break
		}
		i := strings.IndexByte(h, ':')
		if i < 0 {
			continue
		}
		k, v := strings.ToLower(strings.TrimSpace(h[:i])), strings.TrimSpace(h[i+1:])
		switch k {
		case "cseq":
			cseq = v
		case "content-length":
			clen, _ = strconv.Atoi(v)
		case "authorization":
			authz = v
		case "session":
			rec.session = v == camSess
		}
	}
	if clen > 0 {
		io.CopyN(io.Discard, br, int64(clen))
	}
	rec.auth = classifyAuth(rec.method, rec.url, authz)
	return rec, cseq, true
}

var garbage = []string{
	"GARBAGE\r\n\r\n",
	"RTSP/1.0 2000 OK\r\n\r\n",
	"RTSP/1.0 abc OK\r\nCSeq: 1\r\n\r\n",
	"\x00\x01\x02\x03\x04\r\n\r\n",
	"RTSP/1.0\r\n\r\n",
}

func (c *camera) serve(conn net.Conn) {
	defer func() {
		c.mu.Lock()
		done := c.playDone
		c.mu.Unlock()
		if done != nil {
			select {
			case <-done:
			default:
				close(done)
			}
		}
	}()
	closed := false
	closeConn := func(rst bool) {
		if closed {
			return
		}
		closed = true
		if rst {
			if tc, ok := conn.(*net.TCPConn); ok {
				tc.SetLinger(0)
			}
		}
		conn.Close()
		atomic.AddInt32(&c.open, -1)
	}
	defer closeConn(false)
	br := bufio.NewReader(conn)
	drain := func() { // wait for the peer to go away (bounded), then close
		conn.SetReadDeadline(time.Now().Add(drainBound))
		buf := make([]byte, 4096)
		for {
			_, err := br.Read(buf)
			if err != nil {
				if ne, ok := err.(net.Error); !ok || !ne.Timeout() {
					atomic.AddInt32(&c.peerGone, 1)
				}
				return
			}
		}
	}
	nreq := 0
	var cc *camConn
	if c.repl {
		cc = &camConn{gate: make(chan struct{}), cmd: make(chan int64, 8), done: make(chan struct{})}
		defer close(cc.done)
	}
	for {
		rec, cseq, ok := c.readRequest(br)
		if !ok {
			atomic.AddInt32(&c.peerGone, 1)
			return
		}
		if cc != nil && nreq == 0 {
			c.arrived <- cc
			select {
			case <-cc.gate:
			case <-time.After(2 * bound):
			}
		}
		c.mu.Lock()
		c.reqs = append(c.reqs, rec)
		c.mu.Unlock()
		nreq++
		k := c.next()
		// The client under test reads every response under config.NetTimeout().  It is long (longTO) except
		// for the one read that is the time-out scenario: the camera shortens it just before it answers the
		// step that precedes the silence, so the short deadline only ever covers "request sent, nothing comes".
		switch k {
		case kOk, kBasic, kDigest, kAuthOther, kErr4, kErr5:
			if k == kOk && rec.method == "PLAY" {
				if c.playEndsInSilence() {
					config.VerifSetNetTimeout(shortTO) // playStream reads the time-out once, when it starts
					c.pinging = true
				}
			} else if c.nextIsSilence() {
				config.VerifSetNetTimeout(shortTO)
			}
		}
		head := func(code int, text string) string {
			return fmt.Sprintf("RTSP/1.0 %d %s\r\nCSeq: %s\r\nServer: c20-camera\r\n", code, text, cseq)
		}
		switch k {
		case kOk:
			switch rec.method {
			case "OPTIONS":
				io.WriteString(conn, head(200, "OK")+"Public: OPTIONS, DESCRIBE, SETUP, PLAY, TEARDOWN\r\n\r\n")
			case "DESCRIBE":
				msg := head(200, "OK") + "Content-Type: application/sdp\r\nContent-Length: " +
					strconv.Itoa(len(c.sdp)) + "\r\n\r\n" + c.sdp
				if c.split && len(c.sdp) > 1 {
					// the body reaches the client in two reads: the rest is sent after the client had time to
					// consume the first segment (if it is slower than that the two segments merely merge)
					cut := len(msg) - len(c.sdp)/2
					io.WriteString(conn, msg[:cut])
					time.Sleep(120 * time.Millisecond)
					io.WriteString(conn, msg[cut:])
				} else {
					io.WriteString(conn, msg)
				}
			case "SETUP":
				io.WriteString(conn, head(200, "OK")+"Transport: RTP/AVP/TCP;unicast;interleaved=0-1\r\nSession: "+camSess+";timeout=60\r\n\r\n")
			case "PLAY":
				io.WriteString(conn, head(200, "OK")+"Session: "+camSess+"\r\nRange: npt=0.000-\r\n\r\n")
				if cc != nil {
					c.playRepl(conn, cc, closeConn, drain)
					return
				}
				c.play(conn, br, closeConn, drain)
				return
			default:
				io.WriteString(conn, head(200, "OK")+"\r\n")
			}
		case kBasic:
			io.WriteString(conn, head(401, "Unauthorized")+"WWW-Authenticate: Basic realm=\""+camRealm+"\"\r\n\r\n")
		case kDigest:
			io.WriteString(conn, head(401, "Unauthorized")+"WWW-Authenticate: Digest realm=\""+camRealm+"\", nonce=\""+camNonce+"\"\r\n\r\n")
		case kAuthOther:
			io.WriteString(conn, head(401, "Unauthorized")+"WWW-Authenticate: Negotiate\r\n\r\n")
		case kErr4:
			io.WriteString(conn, head(404, "Not Found")+"\r\n")
		case kErr5:
			io.WriteString(conn, head(503, "Service Unavailable")+"\r\n")
		case kMalformed:
			io.WriteString(conn, garbage[(nreq+len(c.sdp))%len(garbage)])
		case kSilence:
			drain()
			return
		case kReset:
			closeConn(true)
			return
		default: // kEOF
			if tc, ok := conn.(*net.TCPConn); ok {
				tc.CloseWrite()
			}
			drain()
			return
		}
	}
}

// minimal RTP packet: single NAL unit (non-IDR slice), payload type 96
func (c *camera) rtpPacket() []byte {
	c.seqno++
	p := []byte{0x80, 96, byte(c.seqno >> 8), byte(c.seqno), 0, 0, byte(c.seqno >> 8), byte(c.seqno), 0x11, 0x22, 0x33, 0x44,
		0x41, 0x9a, 0x01, 0x02, 0x03, 0x04}
	return append([]byte{'$', 0, byte(len(p) >> 8), byte(len(p))}, p...)
}

// play phase of the replaced-pull scenario: commands from the harness; the pull client may also go away by itself
func (c *camera) playRepl(conn net.Conn, cc *camConn, closeConn func(bool), drain func()) {
	gone := make(chan struct{})
	go func() { drain(); close(gone) }()
	for {
		select {
		case <-gone:
			return
		case k := <-cc.cmd:
			switch k {
			case -1:
				c.mu.Lock()
				pkt := c.rtpPacket()
				c.mu.Unlock()
				conn.Write(pkt)
			case kReset:
				closeConn(true)
				<-gone
				return
			default:
				if tc, ok := conn.(*net.TCPConn); ok {
					tc.CloseWrite()
				}
				<-gone
				return
			}
		case <-time.After(4 * bound):
			return
		}
	}
}

func (c *camera) play(conn net.Conn, br *bufio.Reader, closeConn func(bool), drain func()) {
	if c.conc {
		select {
		case <-c.kick:
		case <-time.After(2 * bound):
		}
		c.mu.Lock()
		pkt := c.rtpPacket()
		c.mu.Unlock()
		conn.Write(pkt)
		// a pull client whose stream was replaced goes away by itself; the others stay until the gate opens
		gone := make(chan struct{})
		go func() { drain(); close(gone) }()
		select {
		case <-c.gate:
			if tc, ok := conn.(*net.TCPConn); ok {
				tc.CloseWrite()
			}
			<-gone
		case <-gone:
		}
		return
	}
	// a play phase that ends in a silence runs under the short time-out from its start (playStream reads it
	// once): unsolicited responses, which the client ignores, keep its read deadline moving until the silence
	stopPing := func() {}
	if c.pinging {
		stop, stopped := make(chan struct{}), make(chan struct{})
		go func() {
			defer close(stopped)
			t := time.NewTicker(shortTO / 10)
			defer t.Stop()
			for {
				select {
				case <-stop:
					return
				case <-t.C:
					io.WriteString(conn, "RTSP/1.0 200 OK\r\nCSeq: 0\r\n\r\n")
				}
			}
		}()
		var once sync.Once
		stopPing = func() { once.Do(func() { close(stop); <-stopped }) }
		defer stopPing()
	}
	if os.Getenv("C20_UNGATED") == "" { // (experiments only: let the play events run without waiting for the harness)
		select {
		case <-c.gate:
		case <-time.After(2 * bound):
		}
	}
	for {
		k := c.next()
		switch k {
		case kOk:
			if _, err := conn.Write(c.rtpPacket()); err == nil {
				atomic.AddInt32(&c.sent, 1)
			}
			c.waitSync()
		case kBasic, kDigest, kAuthOther:
			io.WriteString(conn, "RTSP/1.0 401 Unauthorized\r\nCSeq: 99\r\n\r\n")
		case kErr4:
			io.WriteString(conn, "RTSP/1.0 404 Not Found\r\nCSeq: 99\r\n\r\n")
		case kErr5:
			io.WriteString(conn, "RTSP/1.0 503 Service Unavailable\r\nCSeq: 99\r\n\r\n")
		case kMalformed:
			io.WriteString(conn, "GARBAGE IN THE PLAY PHASE\r\n\r\n")
			drain()
			return
		case kSilence:
			stopPing()
			drain()
			return
		case kReset:
			closeConn(true)
			return
		default:
			if tc, ok := conn.(*net.TCPConn); ok {
				tc.CloseWrite()
			}
			drain()
			return
		}
	}
}

// after each packet: wait until the consumer has seen everything sent (so that a following
// disconnect cannot overtake queued packets); bounded
var consumerGot int32

func (c *camera) waitSync() {
	waitFor(bound, func() bool { return atomic.LoadInt32(&consumerGot) >= atomic.LoadInt32(&c.sent) })
}

func (c *camera) acceptLoop() {
	for {
		conn, err := c.ln.Accept()
		if err != nil {
			return
		}
		c.mu.Lock()
		c.accepted++
		c.mu.Unlock()
		atomic.AddInt32(&c.open, 1)
		go c.serve(conn)
	}
}

// ---------------------------------------------------------------- observation helpers
type recConsumer struct {
	closed int32
}

func (r *recConsumer) Consume(p media.Pack) { atomic.AddInt32(&consumerGot, 1) }
func (r *recConsumer) Close() error         { atomic.StoreInt32(&r.closed, 1); return nil }

var stackBuf = make([]byte, 1<<20)

func pullGoroutines() int64 {
	n := runtime.Stack(stackBuf, true)
	cnt := int64(0)
	for _, g := range bytes.Split(stackBuf[:n], []byte("\n\n")) {
		if bytes.Contains(g, []byte("rtsp.(*PullClient)")) || bytes.Contains(g, []byte("pull_client.go")) {
			cnt++
		}
	}
	return cnt
}

// open client-side connections to the camera: the sockets among THIS process's file descriptors whose peer is
// the camera's listening port (getpeername on every fd of /proc/self/fd).  The camera's own accepted sockets
// have the client's ephemeral port as peer and the listener has none, so every hit is a socket the pull client
// opened and has not closed.  (An earlier version parsed /proc/net/tcp: that listing covers every process of
// the network namespace and is not a snapshot — it once showed two entries for one connection.)
func clientConns(port int) int64 {
	ents, err := os.ReadDir("/proc/self/fd")
	if err != nil {
		return -1
	}
	n := int64(0)
	for _, e := range ents {
		fd, err := strconv.Atoi(e.Name())
		if err != nil {
			continue
		}
		sa, err := syscall.Getpeername(fd)
		if err != nil {
			continue
		}
		switch a := sa.(type) {
		case *syscall.SockaddrInet4:
			if a.Port == port && a.Addr == [4]byte{127, 0, 0, 1} {
				n++
			}
		case *syscall.SockaddrInet6:
			if a.Port == port {
				n++
			}
		}
	}
	return n
}

// waitFor polls for an event.  The bound is generous: it is only ever reached when something is really wrong.
func waitFor(d time.Duration, f func() bool) bool {
	end := time.Now().Add(d)
	nap := time.Millisecond
	for {
		if f() {
			return true
		}
		if time.Now().After(end) {
			return false
		}
		time.Sleep(nap)
		if nap < 40*time.Millisecond {
			nap *= 2
		}
	}
}

// awaited = waitFor with the general bound; a bound that is exceeded makes the process give up on the cases
// that follow (they are answered "!skip" and re-run in a fresh process by the check): what it has just
// observed is reported as it is, but nothing is measured any more next to leftovers of a failed case
func awaited(f func() bool) bool {
	if waitFor(bound, f) {
		return true
	}
	aborted = true
	return false
}

var (
	once     sync.Once
	deadPort string
	aborted  bool
	// the client's response deadline (config.NetTimeout): long wherever the scenario is not a time-out, so that a
	// merely slow step never looks like a silent camera; short only for the read that waits for a silent camera
	longTO  = 20 * time.Second
	shortTO = 2 * time.Second
	// upper bound of every wait for an event (registration, clean-up, delivery, ...)
	bound = 30 * time.Second
	// watchdog of the request itself; shorter than the camera's patience (drainBound), so that a requester
	// which hangs on a silent camera is seen hanging instead of being released by the camera's own close
	hangBound  = 25 * time.Second
	drainBound = 90 * time.Second
)

func envDur(name string, d *time.Duration) {
	if v := os.Getenv(name); v != "" {
		if n, err := strconv.Atoi(v); err == nil {
			*d = time.Duration(n) * time.Millisecond
		}
	}
}

func setup() {
	once.Do(func() {
		xlog.ReplaceGlobal(xlog.New(xlog.NewNopCore()))
		envDur("C20_SHORT_MS", &shortTO)
		envDur("C20_LONG_MS", &longTO)
		envDur("C20_BOUND_MS", &bound)
		config.VerifSetNetTimeout(longTO)
		// a leaked connection that nothing references any more would be closed by the finalizer of its
		// net.Conn at the next garbage collection: collect only between cases so that it stays visible
		debug.SetGCPercent(-1)
		// a port nobody listens on: bind, remember, close
		l, err := net.Listen("tcp", "127.0.0.1:0")
		if err != nil {
			panic(err)
		}
		deadPort = l.Addr().String()
		l.Close()
	})
}

type cfgT struct {
	creds, tracks, sdpkind, urlkind int64
	keepalive, routed               bool
}

// state shared by the rounds of one case
type world struct {
	cfg     cfgT
	cam     *camera
	path    string
	base    int64 // stats.RtspConns active at the start of the case
}

func (w *world) routeURL(refuse bool) string {
	host := w.cam.ln.Addr().String()
	if refuse {
		host = deadPort
	}
	cred := ""
	if w.cfg.creds == 1 {
		cred = camUser + ":" + camPass + "@"
	}
	p := "/live/ch1"
	switch w.cfg.urlkind {
	case 1:
		p = ""
	case 2:
		p = "/live/ch1/"
	}
	return "rtsp://" + cred + host + p
}

// diagnostic (C20_DIAG=1): compare with the listing of /proc/net/tcp and report disagreements on stderr
func procNetTCP(port int) (int64, string) {
	data, _ := os.ReadFile("/proc/net/tcp")
	want := fmt.Sprintf("0100007F:%04X", port)
	n, hit := int64(0), ""
	for _, line := range strings.Split(string(data), "\n") {
		f := strings.Fields(line)
		if len(f) >= 10 && f[2] == want && f[9] != "0" {
			n++
			hit += line + "\n"
		}
	}
	return n, hit
}

var diag = os.Getenv("C20_DIAG") != ""

func (w *world) resources() (conn, registered, counter, gor int64) {
	conn = clientConns(w.cam.ln.Addr().(*net.TCPAddr).Port)
	if diag {
		if n, hit := procNetTCP(w.cam.ln.Addr().(*net.TCPAddr).Port); n != conn {
			if again := clientConns(w.cam.ln.Addr().(*net.TCPAddr).Port); again == conn {
				fmt.Fprintf(os.Stderr, "C20_DIAG fds=%d proc=%d\n%s", conn, n, hit)
			}
		}
	}
	if media.Get(w.path) != nil {
		registered = 1
	}
	counter = stats.RtspConns.GetSample().Active - w.base
	gor = pullGoroutines()
	return
}

func (w *world) round(r Val) Val {
	again := r.At(0).Bool()
	script := []int64{}
	for _, k := range r.At(1).List() {
		script = append(script, k.Int())
	}
	cam := w.cam
	connectKind := int64(kEOF)
	if len(script) > 0 {
		connectKind = script[0]
		script = script[1:]
	}
	// every round starts with the long response deadline; if the very first request meets the silence, the
	// short one is in force from the start (nothing but the connect precedes it)
	config.VerifSetNetTimeout(longTO)
	if connectKind == kOk && len(script) > 0 && script[0] == kSilence {
		config.VerifSetNetTimeout(shortTO)
	}
	defer config.VerifSetNetTimeout(longTO)
	cam.mu.Lock()
	cam.script, cam.pos, cam.reqs = script, 0, nil
	cam.pinging = false
	cam.gate = make(chan struct{})
	cam.playDone = make(chan struct{})
	accepted0 := cam.accepted
	cam.mu.Unlock()
	atomic.StoreInt32(&cam.sent, 0)
	atomic.StoreInt32(&consumerGot, 0)

	reqPath := w.path
	route.Save(&route.Route{Pattern: w.path, URL: w.routeURL(connectKind != kOk), KeepAlive: w.cfg.keepalive})
	if !w.cfg.routed {
		reqPath = "/c20/unrouted"
	}

	// the request, under a watchdog
	type res struct {
		s     *media.Stream
		panic string
	}
	ch := make(chan res, 1)
	go func() {
		var out res
		defer func() {
			if p := recover(); p != nil {
				out.panic = fmt.Sprint(p)
			}
			ch <- out
		}()
		out.s = media.GetOrCreate(reqPath)
	}()
	var got res
	outcome := int64(0)
	hung := false
	select {
	case got = <-ch:
	case <-time.After(hangBound):
		hung = true
		aborted = true
	}
	switch {
	case hung:
		outcome = 3
	case got.panic != "":
		outcome = 2
	case got.s != nil:
		outcome = 1
		if got.s.Path() != w.path {
			outcome = 4
		}
	}

	// mid observation: the requester has its answer
	if outcome == 1 {
		// playStream registers and counts from its own goroutine: wait for those events
		awaited(func() bool { return media.Get(w.path) == got.s && stats.RtspConns.GetSample().Active-w.base == 1 })
	} else if outcome == 0 {
		// a failed pull has cleaned up before the requester got its answer
		awaited(func() bool {
			c, _, _, g := w.resources()
			return c == 0 && g == 0
		})
	}
	mc, mr, mn, mg := w.resources()
	mid := L(I(mc), I(mr), I(mn), I(mg))

	againOK := int64(1)
	var cons *recConsumer
	if outcome == 1 {
		if again {
			s2 := media.GetOrCreate(w.path)
			cam.mu.Lock()
			acc := cam.accepted
			cam.mu.Unlock()
			if s2 != got.s || acc != accepted0+1 {
				againOK = 0
			}
		}
		cons = &recConsumer{}
		got.s.StartConsume(cons, media.RTPPacket, "c20")
	}

	// let the play events run and wait for the end of the script
	close(cam.gate)
	cam.mu.Lock()
	acc := cam.accepted
	cam.mu.Unlock()
	if acc > accepted0 && !hung {
		// the camera's connection handler returns when the script has ended and the client has gone
		select {
		case <-cam.playDone:
		case <-time.After(bound):
			aborted = true
		}
	}
	// the clean-up of the pull client is asynchronous: wait for the clean state itself
	awaited(func() bool {
		if media.Get(w.path) != nil || stats.RtspConns.GetSample().Active-w.base != 0 ||
			(cons != nil && atomic.LoadInt32(&cons.closed) != 1) || (atomic.LoadInt32(&cam.open) != 0 && !hung) {
			return false
		}
		c, _, _, g := w.resources()
		return c == 0 && g == 0
	})
	fc, fr, fn, fg := w.resources()
	cc := int64(1)
	if cons != nil {
		cc = int64(atomic.LoadInt32(&cons.closed))
	}
	final := L(I(fc), I(fr), I(fn), I(fg), I(cc))

	cam.mu.Lock()
	reqs := []Val{}
	for _, q := range cam.reqs {
		m := int64(9)
		switch q.method {
		case "OPTIONS":
			m = 0
		case "DESCRIBE":
			m = 1
		case "SETUP":
			m = 2
		case "PLAY":
			m = 3
		}
		reqs = append(reqs, L(I(m), I(q.auth), Bo(q.session)))
	}
	cam.mu.Unlock()
	delivered := int64(atomic.LoadInt32(&consumerGot))

	// whatever is left over must not poison the next round / case
	if s := media.Get(w.path); s != nil {
		media.Unregist(s)
	}
	return L(I(outcome), L(reqs...), mid, I(againOK), I(delivered), final)
}

func newCamera(sdp string) *camera {
	ln, err := net.Listen("tcp", "127.0.0.1:0")
	if err != nil {
		panic(err)
	}
	c := &camera{ln: ln, sdp: sdp}
	go c.acceptLoop()
	return c
}

func runCase(c Val) Val {
	setup()
	runtime.GC()
	cf := c.At(0)
	cfg := cfgT{creds: cf.At(0).Int(), tracks: cf.At(1).Int(), sdpkind: cf.At(2).Int(), urlkind: cf.At(3).Int(),
		keepalive: cf.At(4).Bool(), routed: cf.At(5).Bool()}
	media.VerifResetRegistry()
	route.Reset(mem{})
	cam := newCamera(sdpFor(cfg.tracks, cfg.sdpkind))
	cam.split = cf.At(6).Bool()
	defer cam.ln.Close()
	w := &world{cfg: cfg, cam: cam, path: "/c20/cam", base: stats.RtspConns.GetSample().Active}
	outs := []Val{}
	for _, r := range c.At(1).List() {
		outs = append(outs, w.round(r))
	}
	return L(outs...)
}

// concurrent first requests for one path: case = (n tracks delays)
// observation = (answers live registered member conns counter goroutines final)
func concCase(c Val) Val {
	setup()
	runtime.GC()
	n := int(c.At(0).Int())
	delays := c.At(2).List()
	media.VerifResetRegistry()
	route.Reset(mem{})
	cam := newCamera(sdpFor(c.At(1).Int(), 0))
	cam.conc = true
	cam.gate = make(chan struct{})
	cam.kick = make(chan struct{})
	defer cam.ln.Close()
	config.VerifSetNetTimeout(longTO)
	w := &world{cfg: cfgT{creds: 1, routed: true}, cam: cam, path: "/c20/cam", base: stats.RtspConns.GetSample().Active}
	route.Save(&route.Route{Pattern: w.path, URL: w.routeURL(false), KeepAlive: true})
	var arrivals int32
	verifhook.SetPoint(func(name string, id uint32) {
		if name == "regist.swapped" {
			k := int(atomic.AddInt32(&arrivals, 1)) - 1
			if k < len(delays) {
				time.Sleep(time.Duration(delays[k].Int()) * time.Millisecond)
			}
		}
	})
	defer verifhook.SetPoint(nil)

	start := make(chan struct{})
	res := make(chan *media.Stream, n)
	for i := 0; i < n; i++ {
		go func() {
			var s *media.Stream
			defer func() { recover(); res <- s }()
			<-start
			s = media.GetOrCreate(w.path)
		}()
	}
	close(start)
	got := []*media.Stream{}
	timeout := time.After(bound)
	for i := 0; i < n; i++ {
		select {
		case s := <-res:
			got = append(got, s)
		case <-timeout:
			i = n
			aborted = true
		}
	}
	answers := int64(0)
	for _, s := range got {
		if s != nil && s.Path() == w.path {
			answers++
		}
	}
	// every pull client has registered; then a packet on every connection tells the replaced ones
	awaited(func() bool {
		return stats.RtspConns.GetSample().Active-w.base == int64(atomic.LoadInt32(&cam.open)) && media.Get(w.path) != nil
	})
	close(cam.kick)
	awaited(func() bool {
		cn, r, k, g := w.resources()
		return cn == 1 && r == 1 && k == 1 && g == 1
	})
	cn, _, k, g := w.resources()
	live := int64(0) // distinct live streams among the answers (a late requester may have been given the registered one)
	seen := map[*media.Stream]bool{}
	for _, s := range got {
		if s != nil && !seen[s] && media.VerifStatus(s) == media.StreamOK {
			live++
		}
		seen[s] = true
	}
	sc, _ := media.Count()
	member := int64(0)
	cur := media.Get(w.path)
	for _, s := range got {
		if s != nil && s == cur {
			member = 1
		}
	}
	close(cam.gate)
	awaited(func() bool {
		cn, r, k, g := w.resources()
		return cn == 0 && r == 0 && k == 0 && g == 0 && atomic.LoadInt32(&cam.open) == 0
	})
	fc, fr, fk, fg := w.resources()
	if s := media.Get(w.path); s != nil {
		media.Unregist(s)
	}
	lv := int64(0)
	if live == 1 {
		lv = 1
	} else if live > 1 {
		lv = 2
	}
	return L(Bo(answers == int64(n)), I(lv), I(int64(sc)), I(member), I(cn), I(k), I(g), L(I(fc), I(fr), I(fk), I(fg)))
}

type cntConsumer struct{ closes int32 }

func (r *cntConsumer) Consume(p media.Pack) {}
func (r *cntConsumer) Close() error         { atomic.AddInt32(&r.closes, 1); return nil }

// two overlapping first requests; consumers attach before the other registration; the cameras end later.
// case = (tracks first attach1 attach2 end2first kind1 kind2 keepalive)
// observation = three points (after both registered and a packet on every connection; after the first camera
// ended; after the second) of (closed1 closed2 cc1 cc2 registered conns counter goroutines)
func replCase(c Val) Val {
	setup()
	runtime.GC()
	first := int(c.At(1).Int()) & 1
	// consumer of stream 1: 0 none, 1 before the second registration, 2 between its swap and its look at the
	// consumer count, 3 right after stream 1's status became "replaced", 4 after the second registration
	t1 := c.At(2).Int()
	attach := [2]bool{t1 == 1, c.At(3).Bool()}
	end2first := c.At(4).Bool()
	kinds := [2]int64{c.At(5).Int(), c.At(6).Int()}
	media.VerifResetRegistry()
	route.Reset(mem{})
	cam := newCamera(sdpFor(c.At(0).Int(), 0))
	cam.mu.Lock()
	cam.repl = true
	cam.arrived = make(chan *camConn, 8)
	cam.mu.Unlock()
	defer cam.ln.Close()
	config.VerifSetNetTimeout(longTO)
	w := &world{cfg: cfgT{creds: 0, routed: true}, cam: cam, path: "/c20/cam", base: stats.RtspConns.GetSample().Active}
	route.Save(&route.Route{Pattern: w.path, URL: w.routeURL(false), KeepAlive: c.At(7).Bool()})

	// both requesters are past the registry lookup before either camera connection is served
	var res [2]chan *media.Stream
	var conn [2]*camConn
	for i := 0; i < 2; i++ {
		res[i] = make(chan *media.Stream, 1)
		ch := res[i]
		go func() {
			var s *media.Stream
			defer func() { recover(); ch <- s }()
			s = media.GetOrCreate(w.path)
		}()
		select {
		case conn[i] = <-cam.arrived:
		case <-time.After(bound):
			aborted = true
			return L(S("!uneval")) // the set-up was not achieved: nothing to judge
		}
	}
	order := [2]int{first, 1 - first} // requester index of stream "1" and stream "2"
	var st [2]*media.Stream
	var cons [2]*cntConsumer
	wait := func(d time.Duration, f func() bool) { awaited(f) }
	defer verifhook.SetPoint(nil)
	for n := 0; n < 2; n++ {
		if n == 1 && (t1 == 2 || t1 == 3) {
			// the consumer of stream 1 joins while the second registration is in progress
			want := "regist.swapped"
			if t1 == 3 {
				want = "close.status"
			}
			var fired int32
			s1 := st[0]
			cons[0] = &cntConsumer{}
			c0 := cons[0]
			verifhook.SetPoint(func(name string, id uint32) {
				if name == want && atomic.CompareAndSwapInt32(&fired, 0, 1) {
					s1.StartConsume(c0, media.RTPPacket, "c20repl")
				}
			})
		}
		close(conn[order[n]].gate)
		select {
		case st[n] = <-res[order[n]]:
		case <-time.After(bound):
			aborted = true
		}
		if st[n] == nil {
			panic("c20repl: a requester got no stream from an all-ok camera")
		}
		s := st[n]
		wait(3*time.Second, func() bool { return media.Get(w.path) == s })
		wait(3*time.Second, func() bool { return stats.RtspConns.GetSample().Active-w.base == int64(n+1) })
		if attach[n] {
			cons[n] = &cntConsumer{}
			s.StartConsume(cons[n], media.RTPPacket, "c20repl")
		}
	}
	verifhook.SetPoint(nil)
	if st[0] == st[1] {
		return L(S("!uneval")) // the two requests did not overlap: the set-up was not achieved
	}
	if t1 == 4 { // the first requester joins the stream it was handed only now
		cons[0] = &cntConsumer{}
		st[0].StartConsume(cons[0], media.RTPPacket, "c20repl")
	}
	running := [2]bool{true, true}
	observe := func() Val {
		exp := int64(0)
		for _, r := range running {
			if r {
				exp++
			}
		}
		wait(bound, func() bool {
			// a consumer's Close is called from its own delivery goroutine, after the stream has dropped it:
			// a consumer that is no longer attached to a live stream is awaited until its Close has come
			for i := 0; i < 2; i++ {
				if cons[i] != nil && atomic.LoadInt32(&cons[i].closes) == 0 &&
					!(media.VerifStatus(st[i]) == media.StreamOK && st[i].ConsumerCount() > 0) {
					return false
				}
			}
			cn, _, k, g := w.resources()
			return cn == exp && k == exp && g == exp
		})
		cn, _, k, g := w.resources()
		cl := [2]int64{}
		for i := 0; i < 2; i++ {
			if cons[i] != nil {
				cl[i] = int64(atomic.LoadInt32(&cons[i].closes))
			}
		}
		reg := int64(0)
		switch media.Get(w.path) {
		case nil:
		case st[0]:
			reg = 1
		case st[1]:
			reg = 2
		default:
			reg = 3
		}
		return L(I(cl[0]), I(cl[1]), I(int64(st[0].ConsumerCount())), I(int64(st[1].ConsumerCount())), I(reg), I(cn), I(k), I(g))
	}
	// a packet on every connection: a pull client whose stream was closed at the replacement goes away
	for i := 0; i < 2; i++ {
		conn[i].cmd <- -1
	}
	running[0] = t1 == 1 || t1 == 2 // stream 1 had a consumer when it was replaced: it lives on
	o1 := observe()
	e := [2]int{0, 1}
	if end2first {
		e = [2]int{1, 0}
	}
	conn[order[e[0]]].cmd <- kinds[0]
	running[e[0]] = false
	o2 := observe()
	conn[order[e[1]]].cmd <- kinds[1]
	running[e[1]] = false
	o3 := observe()
	// leave nothing behind for the next case
	for i := 0; i < 2; i++ {
		media.Unregist(st[i])
		st[i].Close()
	}
	for i := 0; i < 2; i++ {
		select {
		case <-conn[i].done:
		case <-time.After(bound):
			aborted = true
		}
	}
	return L(o1, o2, o3)
}

// a case is only measured in a process that is clean: no pull goroutine left from an earlier case, and no
// earlier wait that ran into its bound; otherwise the answer is "!skip" and the check re-runs the case in a
// fresh process
func guarded(f func(Val) Val) func(Val) Val {
	return func(c Val) Val {
		setup()
		if !aborted && pullGoroutines() != 0 {
			awaited(func() bool { return pullGoroutines() == 0 })
		}
		if aborted {
			return L(S("!skip"))
		}
		return f(c)
	}
}

func init() {
	commands["C20"] = guarded(runCase)
	commands["C20conc"] = guarded(concCase)
	commands["C20repl"] = guarded(replCase)
}
