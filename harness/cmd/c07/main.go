// C07 harness: fault injection into the media path.
// packetisers) through rtp.ReadPacket into rtp.NewDemuxer and records the
// frames delivered to a codec.FrameWriter.
package main

import (
	"bufio"
	"bytes"
	"io"
	"strings"
	"sync"

	. "vh/lib"
	"vh/transports"

	"github.com/cnotch/ipchub/av/codec"
	"github.com/cnotch/ipchub/av/format/mpegts"
	"github.com/cnotch/ipchub/av/format/rtp"
	"github.com/cnotch/ipchub/av/format/sdp"
	"github.com/cnotch/ipchub/media/cache"
	"github.com/cnotch/ipchub/service/rtsp"
	"github.com/cnotch/xlog"
)

type recorder struct {
	mu     sync.Mutex
	frames []*codec.Frame
	done   chan struct{}
	end    []byte
}

func (r *recorder) WriteFrame(f *codec.Frame) error {
	r.mu.Lock()
	defer r.mu.Unlock()
	if bytes.Equal(f.Payload, r.end) {
		select {
		case <-r.done:
		default:
			close(r.done)
		}
		return nil
	}
	r.frames = append(r.frames, f)
	return nil
}

// deathCore is the demuxer's log sink: it only notices the message process() logs when it
// recovers a panic and exits, so a dead converter goroutine is reported at once
type deathCore struct {
	died chan struct{}
	once sync.Once
}

func (d *deathCore) Enabled(l xlog.Level) bool { return l >= xlog.ErrorLevel }
func (d *deathCore) Write(e xlog.Entry) error {
	if strings.Contains(e.Message, "routine panic") {
		d.once.Do(func() { close(d.died) })
	}
	return nil
}
func (d *deathCore) Sync() error { return nil }

func rtpPacket(seq uint16, ts uint32, pl []byte) []byte {
	d := make([]byte, 12+len(pl))
	d[0] = 0x80
	d[1] = 96
	d[2], d[3] = byte(seq>>8), byte(seq)
	d[4], d[5], d[6], d[7] = byte(ts>>24), byte(ts>>16), byte(ts>>8), byte(ts)
	d[8], d[9], d[10], d[11] = 1, 2, 3, 4
	copy(d[12:], pl)
	return d
}

var channels = []int{0, 1, 2, 3}

// sentinels: parameter sets (so the video metadata is certainly ready) and an end marker
func sentinels(h265 bool) (ps [][]byte, end []byte) {
	if h265 {
		return [][]byte{append([]byte{0x40, 0x01}, "VERIF-S"...), append([]byte{0x42, 0x01}, "VERIF-S"...),
			append([]byte{0x44, 0x01}, "VERIF-S"...)}, append([]byte{0x02, 0x01}, "VERIF-END"...)
	}
	return [][]byte{append([]byte{0x67}, "VERIF-S"...), append([]byte{0x68}, "VERIF-S"...)},
		append([]byte{0x41}, "VERIF-END"...)
}

func isSentinelPS(p []byte) bool { return bytes.HasSuffix(p, []byte("VERIF-S")) }

// runStream: codec 0 H.264 | 1 H.265 | 2 AAC (video side H.264)
func runStream(cd int64, clock int, wire [][]byte) Val {
	vm := &codec.VideoMeta{Codec: "H264", ClockRate: 90000, Width: 16, Height: 16,
		Sps: []byte{0x67, 1, 2, 3}, Pps: []byte{0x68, 1, 2, 3}}
	am := &codec.AudioMeta{Codec: "AAC", SampleRate: 44100, Channels: 2, SampleSize: 16}
	switch cd {
	case 0:
		vm.ClockRate = clock
	case 1:
		vm.Codec = "H265"
		vm.ClockRate = clock
		vm.Vps = []byte{0x40, 1, 2}
		vm.Sps = []byte{0x42, 1, 2}
		vm.Pps = []byte{0x44, 1, 2}
	default:
		am.SampleRate = clock
	}
	ps, end := sentinels(cd == 1)
	rec := &recorder{done: make(chan struct{}), end: end}
	dc := &deathCore{died: make(chan struct{})}
	dm, err := rtp.NewDemuxer(vm, am, rec, xlog.New(dc))
	if err != nil {
		return L(S("!error"), S(err.Error()))
	}
	defer dm.Close()
	var all []byte
	for _, w := range wire {
		all = append(all, w...)
	}
	rd := bufio.NewReader(bytes.NewReader(all))
	readErr := ""
	for {
		p, err := rtp.ReadPacket(rd, channels)
		if err != nil {
			if p != nil { // what rtsp.receive does: the frame was consumed, skip it
				continue
			}
			if rd.Buffered() > 0 || err != io.EOF {
				readErr = err.Error()
			}
			break
		}
		dm.WriteRtpPacket(p)
	}
	seq := uint16(40000)
	for _, s := range append(ps, end) {
		d := rtpPacket(seq, 0, s)
		seq += 7
		p := &rtp.Packet{Channel: rtp.ChannelVideo, Data: d}
		_ = p.Header.Unmarshal(d)
		dm.WriteRtpPacket(p)
	}
	dead, uneval := awaitOrIdle(rec.done, dc.died)
	if uneval {
		return unevalVal("the demuxer did not get to the end marker within the long bound")
	}
	rec.mu.Lock()
	defer rec.mu.Unlock()
	out := []Val{}
	fr := rec.frames
	for len(fr) > 0 && isSentinelPS(fr[len(fr)-1].Payload) {
		fr = fr[:len(fr)-1]
	}
	for _, f := range fr {
		out = append(out, L(I(int64(f.MediaType)), I(f.Pts), B(f.Payload)))
	}
	// the stream's shared video metadata after the run
	out = append(out, L(I(97), I(0), B(vm.Vps)), L(I(98), I(0), B(vm.Sps)), L(I(99), I(0), B(vm.Pps)))
	if readErr != "" {
		out = append(out, S("!readerr "+readErr))
	}
	if dead {
		out = append(out, S("!dead"))
	}
	return L(out...)
}

var commands = map[string]func(Val) Val{}

func main() { Main(commands) }

type nullTs struct{ n int }

func (w *nullTs) WriteMpegtsFrame(frame *mpegts.Frame) error { w.n++; return nil }

func init() {
	// case = (plan (wire-frame ...)); plan = (codec clock ...)
	commands["C07"] = func(c Val) Val {
		plan := c.At(0)
		var wire [][]byte
		for _, w := range c.At(1).List() {
			wire = append(wire, w.Bytes())
		}
		return runStream(plan.At(0).Int(), int(plan.At(1).Int()), wire)
	}
	commands["cls264"] = func(c Val) Val {
		sps, pps, key := cache.VerifClassifyH264(c.Bytes())
		return L(Bo(false), Bo(sps), Bo(pps), Bo(key))
	}
	commands["cls265"] = func(c Val) Val {
		vps, sps, pps, key := cache.VerifClassifyHevc(c.Bytes())
		return L(Bo(vps), Bo(sps), Bo(pps), Bo(key))
	}
	commands["sr"] = func(c Val) Val {
		var sc rtp.SyncClock
		sc.Init(90000)
		if ok := sc.Decode(c.Bytes()); ok {
			return L(I(1), I(int64(sc.RTPTime)))
		}
		return L(I(0), I(0))
	}
	commands["sdp"] = func(c Val) Val {
		var v codec.VideoMeta
		var a codec.AudioMeta
		if err := sdp.ParseMetadata(c.Str(), &v, &a); err != nil {
			return L(S("err"))
		}
		return L(S("ok"), S(v.Codec), S(a.Codec))
	}
	// receive loop: case = ((valid bytes) ...) -> (delivered, error-flag)
	commands["recv"] = func(c Val) Val {
		var all []byte
		for _, f := range c.List() {
			all = append(all, f.At(1).Bytes()...)
		}
		rd := bufio.NewReader(bytes.NewReader(all))
		n := 0
		h := &rtsp.VerifReceiveHandler{
			OnRequest:  func(req *rtsp.Request) error { return nil },
			OnResponse: func(resp *rtsp.Response) error { return nil },
			OnPack:     func(p *rtsp.RTPPack) error { n++; return nil },
		}
		for {
			err := rtsp.VerifReceive(rd, []int{0, 1, 2, 3}, h)
			if err == io.EOF {
				return L(I(int64(n)), I(0))
			}
			if err != nil { // the session / pull loop would end here
				return L(I(int64(n)), I(1), S(err.Error()))
			}
		}
	}
	commands["iso"] = isoRun
	commands["C07_transports"] = transports.RunC07 // real viewers of every transport (harness/transports, shared with C01 / C03)
	commands["flvconv"] = flvConv
	commands["tsconv"] = tsConv
	// TS AAC packetizer with an arbitrary AudioSpecificConfig, then audio frames
	commands["tsaac"] = func(c Val) Val {
		w := &nullTs{}
		ap := mpegts.NewAacPacketizer(&codec.AudioMeta{Codec: "AAC", SampleRate: 44100, Channels: 2, Sps: c.At(0).Bytes()}, w)
		errs := 0
		for _, f := range c.At(1).List() {
			if err := ap.Packetize(&codec.Frame{MediaType: codec.MediaTypeAudio, Pts: 1000, Dts: 1000, Payload: f.Bytes()}); err != nil {
				errs++
			}
		}
		return L(I(int64(w.n)), I(int64(errs)))
	}
}
