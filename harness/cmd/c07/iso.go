// Isolation replay for C07: two streams fed by two receive loops ("sessions") in one
// process; faults go to stream A only.  After every fault: (a) stream B still relays RTP
// and produces FLV tags and HLS segments, (b) so does stream A for later valid packets,
// (c) a new consumer can attach to A (the join mutex is not wedged), (d) no conversion
// goroutine of either stream has gone (or is left over).
package main

import (
	"bufio"
	"bytes"
	"io"
	"runtime"
	"strconv"
	"sync"
	"time"

	. "vh/lib"

	"github.com/cnotch/ipchub/av/codec"
	"github.com/cnotch/ipchub/av/format/flv"
	"github.com/cnotch/ipchub/av/format/mpegts"
	"github.com/cnotch/ipchub/av/format/rtp"
	"github.com/cnotch/ipchub/media"
	"github.com/cnotch/ipchub/service/rtsp"
	"github.com/cnotch/xlog"
)

const isoSdp = "v=0\r\no=- 0 0 IN IP4 127.0.0.1\r\ns=t\r\nc=IN IP4 127.0.0.1\r\nt=0 0\r\n" +
	"m=video 0 RTP/AVP 96\r\na=rtpmap:96 H264/90000\r\n" +
	"a=fmtp:96 packetization-mode=1; sprop-parameter-sets=Z2QAH6zZQFAFuhAAAAMAEAAAAwPI8YMZYA==,aO+8sA==; profile-level-id=64001F\r\n" +
	"a=control:streamid=0\r\n" +
	"m=audio 0 RTP/AVP 97\r\na=rtpmap:97 MPEG4-GENERIC/44100/2\r\n" +
	"a=fmtp:97 profile-level-id=1;mode=AAC-hbr;sizelength=13;indexlength=3;indexdeltalength=3; config=1210\r\n" +
	"a=control:streamid=1\r\n"

var processFrames = [][]byte{[]byte("rtp.(*Demuxer).process"), []byte("flv.(*Muxer).process"), []byte("mpegts.(*Muxer).process")}

func countConverters() [3]int {
	buf := make([]byte, 1<<20)
	for {
		n := runtime.Stack(buf, true)
		if n < len(buf) {
			buf = buf[:n]
			break
		}
		buf = make([]byte, 2*len(buf))
	}
	var out [3]int
	for _, blk := range bytes.Split(buf, []byte("\n\n")) {
		for i, f := range processFrames {
			if bytes.Contains(blk, f) {
				out[i]++
			}
		}
	}
	return out
}

// seen records the probe ids a consumer has been handed
type seen struct {
	mu  sync.Mutex
	ids map[uint32]bool
	n   int
}

func newSeen() *seen { return &seen{ids: map[uint32]bool{}} }
func (s *seen) add(id uint32) {
	s.mu.Lock()
	s.ids[id] = true
	s.n++
	s.mu.Unlock()
}
func (s *seen) has(id uint32) bool { s.mu.Lock(); defer s.mu.Unlock(); return s.ids[id] }

var probeMark = []byte("PRB")

func probeID(b []byte) (uint32, bool) {
	if len(b) >= 8 && bytes.Equal(b[len(b)-7:len(b)-4], probeMark) {
		t := b[len(b)-4:]
		return uint32(t[0])<<24 | uint32(t[1])<<16 | uint32(t[2])<<8 | uint32(t[3]), true
	}
	return 0, false
}

type rtpConsumer struct{ s *seen }

func (c *rtpConsumer) Consume(p media.Pack) {
	if pk, ok := p.(*rtp.Packet); ok && (pk.Channel == rtp.ChannelVideo || pk.Channel == rtp.ChannelAudio) {
		if id, ok := probeID(pk.Payload()); ok {
			c.s.add(id)
		}
	}
}
func (c *rtpConsumer) Close() error { return nil }

type flvConsumer struct{ video, audio *seen }

func (c *flvConsumer) Consume(p media.Pack) {
	if t, ok := p.(*flv.Tag); ok {
		if id, ok := probeID(t.Data); ok {
			if t.TagType == flv.TagTypeVideo {
				c.video.add(id)
			} else if t.TagType == flv.TagTypeAudio {
				c.audio.add(id)
			}
		}
	}
}
func (c *flvConsumer) Close() error { return nil }

type isoStream struct {
	s        *media.Stream
	rtpSeen  *seen
	flvV     *seen
	flvA     *seen
	seq      uint16
	aseq     uint16
	ts       uint32
	ats      uint32
	nextID   uint32
	lastSeg  int
	handler  *rtsp.VerifReceiveHandler
	channels []int
}

var isoSeq int

func newIsoStream() *isoStream {
	isoSeq++
	st := &isoStream{s: media.NewStream("/c07iso/"+strconv.Itoa(isoSeq), isoSdp), rtpSeen: newSeen(), flvV: newSeen(), flvA: newSeen(),
		seq: uint16(1000 * isoSeq), ts: 90000, ats: 44100, channels: []int{0, 1, 2, 3}}
	st.s.StartConsume(&rtpConsumer{st.rtpSeen}, media.RTPPacket, "iso")
	st.s.StartConsume(&flvConsumer{st.flvV, st.flvA}, media.FLVPacket, "iso")
	st.handler = &rtsp.VerifReceiveHandler{
		OnRequest:  func(req *rtsp.Request) error { return nil },
		OnResponse: func(resp *rtsp.Response) error { return nil },
		OnPack:     func(p *rtsp.RTPPack) error { return st.s.WriteRtpPacket(p) },
	}
	return st
}

// feed runs the session's receive loop over data on its own goroutine; a panic is what would end the
// session goroutine, and a loop that does not come back within 3 s is stuck (e.g. on a wedged mutex)
func (st *isoStream) feed(data []byte) (bad bool) {
	res := make(chan bool, 1)
	go func() { res <- st.feedNow(data) }()
	select {
	case p := <-res:
		return p
	case <-time.After(3 * time.Second):
		return true
	}
}

func (st *isoStream) feedNow(data []byte) (panicked bool) {
	defer func() {
		if recover() != nil {
			panicked = true
		}
	}()
	rd := bufio.NewReader(bytes.NewReader(data))
	for {
		err := rtsp.VerifReceive(rd, st.channels, st.handler)
		if err != nil {
			if err != io.EOF {
				// framing lost (cannot happen with well-framed faults): the rest of this fault is dropped
			}
			return
		}
	}
}

func frame(ch byte, pt byte, seq uint16, ts uint32, pl []byte) []byte {
	d := make([]byte, 4+12+len(pl))
	d[0], d[1] = '$', ch
	n := 12 + len(pl)
	d[2], d[3] = byte(n>>8), byte(n)
	r := d[4:]
	r[0], r[1] = 0x80, pt
	r[2], r[3] = byte(seq>>8), byte(seq)
	r[4], r[5], r[6], r[7] = byte(ts>>24), byte(ts>>16), byte(ts>>8), byte(ts)
	r[8], r[9], r[10], r[11] = 9, 9, 9, byte(ch)
	copy(r[12:], pl)
	return d
}

func withID(prefix []byte, id uint32) []byte {
	b := append([]byte{}, prefix...)
	b = append(b, probeMark...)
	return append(b, byte(id>>24), byte(id>>16), byte(id>>8), byte(id))
}

func (st *isoStream) maxSegment() int {
	h := st.s.Hlsable()
	if h == nil {
		return -1
	}
	best := st.lastSeg
	for q := st.lastSeg + 1; q < st.lastSeg+8; q++ {
		if _, _, err := h.Segment(q); err == nil {
			best = q
		}
	}
	return best
}

func waitFor(cond func() bool, d time.Duration) bool {
	deadline := time.Now().Add(d)
	for {
		if cond() {
			return true
		}
		if time.Now().After(deadline) {
			return false
		}
		time.Sleep(200 * time.Microsecond)
	}
}

// probe: valid packets through the session; true iff RTP relay, FLV video + audio tags and a new HLS segment all appear
func (st *isoStream) probe() bool {
	st.nextID++
	id := st.nextID
	var b []byte
	st.ts += 3600
	b = append(b, frame(0, 96, st.seq, st.ts, withID([]byte{0x41, 0x9a}, id))...)
	st.seq++
	st.ats += 1024
	au := withID([]byte{0x21, 0x10}, id)
	apl := append([]byte{0, 16, byte(len(au) >> 5), byte(len(au) << 3)}, au...)
	b = append(b, frame(2, 97, st.aseq, st.ats, apl)...)
	st.aseq++
	if st.feed(b) {
		return false
	}
	ok := waitFor(func() bool { return st.rtpSeen.has(id) && st.flvV.has(id) && st.flvA.has(id) }, 3*time.Second)
	if !ok {
		return false
	}
	// HLS: key frames 6 s apart close segments; garbage may have bent one segment's clock, so allow a few rounds
	for round := 0; round < 4; round++ {
		var k []byte
		for i := 0; i < 2; i++ {
			st.ts += 6 * 90000
			k = append(k, frame(0, 96, st.seq, st.ts, []byte{0x65, 0x88, byte(id), byte(round)})...)
			st.seq++
		}
		if st.feed(k) {
			return false
		}
		if waitFor(func() bool { return st.maxSegment() > st.lastSeg }, 500*time.Millisecond) {
			st.lastSeg = st.maxSegment()
			return true
		}
	}
	return false
}

// join: a new consumer attaches (RTP and FLV) and detaches; false = it did not return (mutex wedged)
func (st *isoStream) join() bool {
	done := make(chan struct{})
	go func() {
		c1 := st.s.StartConsume(&rtpConsumer{newSeen()}, media.RTPPacket, "join")
		c2 := st.s.StartConsume(&flvConsumer{newSeen(), newSeen()}, media.FLVPacket, "join")
		st.s.StopConsume(c1)
		st.s.StopConsume(c2)
		close(done)
	}()
	select {
	case <-done:
		return true
	case <-time.After(2 * time.Second):
		return false
	}
}

var isoQuiet sync.Once

// pin: a sender report on both control channels fixes the clock bases before any media, as
// publishers do (the first SR with a non-zero RTP time wins; see the known finding about forged SRs)
func (st *isoStream) pin() {
	sr := func(ch byte, rt uint32) []byte {
		d := make([]byte, 4+28)
		d[0], d[1], d[2], d[3] = '$', ch, 0, 28
		r := d[4:]
		r[0], r[1], r[2], r[3] = 0x80, 200, 0, 6
		r[16], r[17], r[18], r[19] = byte(rt>>24), byte(rt>>16), byte(rt>>8), byte(rt)
		return d
	}
	st.feed(append(sr(1, st.ts), sr(3, st.ats)...))
}

// case = (pin (fault ...)), each fault = bytes of well-framed interleaved frames for stream A
func isoRun(c Val) Val {
	isoQuiet.Do(func() { xlog.ReplaceGlobal(xlog.New(xlog.NewNopCore())) })
	base := countConverters()
	a, b := newIsoStream(), newIsoStream()
	defer func() { a.s.Close(); b.s.Close() }()
	want := [3]int{base[0] + 2, base[1] + 2, base[2] + 2}
	if c.At(0).Bool() {
		a.pin()
		b.pin()
	}
	// warm-up: the first HLS segment of each stream
	a.probe()
	b.probe()
	out := []Val{}
	for _, f := range c.At(1).List() {
		panicked := a.feed(f.Bytes())
		other := b.probe()
		self := a.probe()
		join := a.join()
		gor := waitFor(func() bool { return countConverters() == want }, 300*time.Millisecond)
		out = append(out, L(Bo(panicked), Bo(other), Bo(self), Bo(join), Bo(gor)))
		if panicked || !other || !self || !join || !gor {
			// the process is damaged: everything after it would only repeat the time-outs
			for len(out) < len(c.At(1).List()) {
				out = append(out, L(I(2), I(0), I(0), I(0), I(0)))
			}
			break
		}
	}
	return L(out...)
}

var _ = codec.MediaTypeVideo
var _ mpegts.FrameWriter
