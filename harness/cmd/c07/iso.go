// Isolation replay for C07: two streams fed by two receive loops ("sessions") in one
// process; faults go to stream A only.  After every fault: (a) stream B still relays RTP
// and produces FLV tags and HLS segments, (b) so does stream A for later valid packets,
// (c) a new consumer can attach to A (the join mutex is not wedged), (d) no conversion
// goroutine of either stream has gone (or is left over).
package main

import (
	"bufio"
	"bytes"
	"io"
	"strconv"
	"sync"
	"time"

	. "vh/lib"

	"github.com/cnotch/ipchub/av/codec"
	"github.com/cnotch/ipchub/av/format/flv"
	"github.com/cnotch/ipchub/av/format/mpegts"
	"github.com/cnotch/ipchub/av/format/rtp"
	"github.com/cnotch/ipchub/media"
	"github.com/cnotch/ipchub/service/rtsp"
	"github.com/cnotch/xlog"
)

const isoSdp = "v=0\r\no=- 0 0 IN IP4 127.0.0.1\r\ns=t\r\nc=IN IP4 127.0.0.1\r\nt=0 0\r\n" +
	"m=video 0 RTP/AVP 96\r\na=rtpmap:96 H264/90000\r\n" +
	"a=fmtp:96 packetization-mode=1; sprop-parameter-sets=Z2QAH6zZQFAFuhAAAAMAEAAAAwPI8YMZYA==,aO+8sA==; profile-level-id=64001F\r\n" +
	"a=control:streamid=0\r\n" +
	"m=audio 0 RTP/AVP 97\r\na=rtpmap:97 MPEG4-GENERIC/44100/2\r\n" +
	"a=fmtp:97 profile-level-id=1;mode=AAC-hbr;sizelength=13;indexlength=3;indexdeltalength=3; config=1210\r\n" +
	"a=control:streamid=1\r\n"

var processFrames = [][]byte{[]byte("rtp.(*Demuxer).process"), []byte("flv.(*Muxer).process"), []byte("mpegts.(*Muxer).process")}

func countConverters() [3]int {
	buf := stackDump()
	var out [3]int
	for _, blk := range bytes.Split(buf, []byte("\n\n")) {
		for i, f := range processFrames {
			if bytes.Contains(blk, f) {
				out[i]++
			}
		}
	}
	return out
}

// seen records the probe ids a consumer has been handed
type seen struct {
	mu  sync.Mutex
	ids map[uint32]bool
	n   int
}

func newSeen() *seen { return &seen{ids: map[uint32]bool{}} }
func (s *seen) add(id uint32) {
	s.mu.Lock()
	s.ids[id] = true
	s.n++
	s.mu.Unlock()
}
func (s *seen) has(id uint32) bool { s.mu.Lock(); defer s.mu.Unlock(); return s.ids[id] }

var probeMark = []byte("PRB")

func probeID(b []byte) (uint32, bool) {
	if len(b) >= 8 && bytes.Equal(b[len(b)-7:len(b)-4], probeMark) {
		t := b[len(b)-4:]
		return uint32(t[0])<<24 | uint32(t[1])<<16 | uint32(t[2])<<8 | uint32(t[3]), true
	}
	return 0, false
}

type rtpConsumer struct{ s *seen }

func (c *rtpConsumer) Consume(p media.Pack) {
	if pk, ok := p.(*rtp.Packet); ok && (pk.Channel == rtp.ChannelVideo || pk.Channel == rtp.ChannelAudio) {
		if id, ok := probeID(pk.Payload()); ok {
			c.s.add(id)
		}
	}
}
func (c *rtpConsumer) Close() error { return nil }

type flvConsumer struct{ video, audio *seen }

func (c *flvConsumer) Consume(p media.Pack) {
	if t, ok := p.(*flv.Tag); ok {
		if id, ok := probeID(t.Data); ok {
			if t.TagType == flv.TagTypeVideo {
				c.video.add(id)
			} else if t.TagType == flv.TagTypeAudio {
				c.audio.add(id)
			}
		}
	}
}
func (c *flvConsumer) Close() error { return nil }

type isoStream struct {
	s        *media.Stream
	rtpSeen  *seen
	flvV     *seen
	flvA     *seen
	seq      uint16
	aseq     uint16
	ts       uint32
	ats      uint32
	nextID   uint32
	lastSeg  int
	handler  *rtsp.VerifReceiveHandler
	channels []int
	sps0     []byte
	pps0     []byte
	asc0     []byte
}

var isoSeq int

func newIsoStream() *isoStream {
	isoSeq++
	st := &isoStream{s: media.NewStream("/c07iso/"+strconv.Itoa(isoSeq), isoSdp), rtpSeen: newSeen(), flvV: newSeen(), flvA: newSeen(),
		seq: uint16(1000 * isoSeq), ts: 90000, ats: 44100, channels: []int{0, 1, 2, 3}}
	st.sps0 = append([]byte(nil), st.s.Video.Sps...)
	st.pps0 = append([]byte(nil), st.s.Video.Pps...)
	st.asc0 = append([]byte(nil), st.s.Audio.Sps...)
	st.s.StartConsume(&rtpConsumer{st.rtpSeen}, media.RTPPacket, "iso")
	st.s.StartConsume(&flvConsumer{st.flvV, st.flvA}, media.FLVPacket, "iso")
	st.handler = &rtsp.VerifReceiveHandler{
		OnRequest:  func(req *rtsp.Request) error { return nil },
		OnResponse: func(resp *rtsp.Response) error { return nil },
		OnPack:     func(p *rtsp.RTPPack) error { return st.s.WriteRtpPacket(p) },
	}
	return st
}

// feed runs the session's receive loop over data on its own goroutine and waits for it to come
// back.  bad = it panicked (what would end the session goroutine), or the whole process has gone
// quiescent while the loop is still inside (it is blocked for good, e.g. on a wedged mutex).
// uneval = the machine did not let us see either within the long bound.
func (st *isoStream) feed(data []byte) (bad, uneval bool) {
	res := make(chan bool, 1)
	go func() { res <- st.feedNow(data) }()
	deadline := time.Now().Add(longBound)
	for {
		select {
		case p := <-res:
			return p, false
		case <-time.After(time.Millisecond):
		}
		if othersBlocked() && othersBlocked() && othersBlocked() {
			select {
			case p := <-res:
				return p, false
			default:
				return true, false
			}
		}
		if time.Now().After(deadline) {
			return false, true
		}
	}
}

func (st *isoStream) feedNow(data []byte) (panicked bool) {
	defer func() {
		if recover() != nil {
			panicked = true
		}
	}()
	rd := bufio.NewReader(bytes.NewReader(data))
	for {
		err := rtsp.VerifReceive(rd, st.channels, st.handler)
		if err != nil {
			if err != io.EOF {
				// framing lost (cannot happen with well-framed faults): the rest of this fault is dropped
			}
			return
		}
	}
}

func frame(ch byte, pt byte, seq uint16, ts uint32, pl []byte) []byte {
	d := make([]byte, 4+12+len(pl))
	d[0], d[1] = '$', ch
	n := 12 + len(pl)
	d[2], d[3] = byte(n>>8), byte(n)
	r := d[4:]
	r[0], r[1] = 0x80, pt
	r[2], r[3] = byte(seq>>8), byte(seq)
	r[4], r[5], r[6], r[7] = byte(ts>>24), byte(ts>>16), byte(ts>>8), byte(ts)
	r[8], r[9], r[10], r[11] = 9, 9, 9, byte(ch)
	copy(r[12:], pl)
	return d
}

func withID(prefix []byte, id uint32) []byte {
	b := append([]byte{}, prefix...)
	b = append(b, probeMark...)
	return append(b, byte(id>>24), byte(id>>16), byte(id>>8), byte(id))
}

func (st *isoStream) maxSegment() int {
	h := st.s.Hlsable()
	if h == nil {
		return -1
	}
	best := st.lastSeg
	for q := st.lastSeg + 1; q < st.lastSeg+8; q++ {
		if _, _, err := h.Segment(q); err == nil {
			best = q
		}
	}
	return best
}

// probeSend: valid packets through the session (a slice with an id on the video channel, an AU with
// the id on the audio channel, two key frames 6 s apart).  probeCheck, called at quiescence (every
// queue drained): the RTP relay, the FLV video and audio tags and a new HLS segment must be there.
func (st *isoStream) probeSend() (id uint32, bad, uneval bool) {
	st.nextID++
	id = st.nextID
	var b []byte
	st.ts += 3600
	b = append(b, frame(0, 96, st.seq, st.ts, withID([]byte{0x41, 0x9a}, id))...)
	st.seq++
	st.ats += 1024
	au := withID([]byte{0x21, 0x10}, id)
	apl := append([]byte{0, 16, byte(len(au) >> 5), byte(len(au) << 3)}, au...)
	b = append(b, frame(2, 97, st.aseq, st.ats, apl)...)
	st.aseq++
	b = append(b, st.keyFrames(id, 0)...)
	bad, uneval = st.feed(b)
	return
}

// metaKept: Stream.Video / Stream.Audio still carry the parameter sets of the SDP, and the newest HLS
// segment puts exactly that SPS and PPS in front of its key frame
func (st *isoStream) metaKept() bool {
	v, a := &st.s.Video, &st.s.Audio
	if !bytes.Equal(v.Sps, st.sps0) || !bytes.Equal(v.Pps, st.pps0) || !bytes.Equal(a.Sps, st.asc0) ||
		v.Codec != "H264" || a.Codec != "AAC" {
		return false
	}
	if h := st.s.Hlsable(); h != nil && st.lastSeg > 0 {
		if r, _, err := h.Segment(st.lastSeg); err == nil {
			seg, _ := io.ReadAll(r)
			want := append(append([]byte{0, 0, 0, 1}, st.sps0...), append([]byte{0, 0, 0, 1}, st.pps0...)...)
			if !bytes.Contains(tsPayload(seg), want) {
				return false
			}
		}
	}
	return true
}

// tsPayload: the payload bytes of the video PID (256) of a transport stream, adaptation fields removed
func tsPayload(seg []byte) []byte {
	var out []byte
	for i := 0; i+188 <= len(seg); i += 188 {
		p := seg[i : i+188]
		if p[0] != 0x47 || (int(p[1]&0x1f)<<8|int(p[2])) != 256 {
			continue
		}
		off := 4
		if p[3]&0x20 != 0 {
			off += 1 + int(p[4])
		}
		if p[3]&0x10 != 0 && off < 188 {
			out = append(out, p[off:]...)
		}
	}
	return out
}

func (st *isoStream) keyFrames(id uint32, round int) []byte {
	var k []byte
	for i := 0; i < 2; i++ {
		st.ts += 6 * 90000
		k = append(k, frame(0, 96, st.seq, st.ts, []byte{0x65, 0x88, byte(id), byte(round)})...)
		st.seq++
	}
	return k
}

func (st *isoStream) probeCheck(id uint32) (ok, uneval bool) {
	if !(st.rtpSeen.has(id) && st.flvV.has(id) && st.flvA.has(id)) {
		return false, false
	}
	// garbage may have bent one segment's clock, so allow a few more rounds of key frames
	for round := 1; ; round++ {
		if m := st.maxSegment(); m > st.lastSeg {
			st.lastSeg = m
			return true, false
		}
		if round == 4 {
			return false, false
		}
		if bad, un := st.feed(st.keyFrames(id, round)); bad || un {
			return false, un
		}
		if !quiesce() {
			return false, true
		}
	}
}

func (st *isoStream) probe() (ok, uneval bool) {
	id, bad, un := st.probeSend()
	if bad || un {
		return false, un
	}
	if !quiesce() {
		return false, true
	}
	return st.probeCheck(id)
}

// joinStart: a new consumer attaches (RTP and FLV) and detaches, on its own goroutine; at quiescence it
// must have come back (otherwise the join mutex is wedged)
func (st *isoStream) joinStart() chan struct{} {
	done := make(chan struct{})
	go func() {
		c1 := st.s.StartConsume(&rtpConsumer{newSeen()}, media.RTPPacket, "join")
		c2 := st.s.StartConsume(&flvConsumer{newSeen(), newSeen()}, media.FLVPacket, "join")
		st.s.StopConsume(c1)
		st.s.StopConsume(c2)
		close(done)
	}()
	return done
}

var isoQuiet sync.Once

// pin: a sender report on both control channels fixes the clock bases before any media, as
// publishers do (the first SR with a non-zero RTP time wins; see the known finding about forged SRs)
func (st *isoStream) pin() {
	sr := func(ch byte, rt uint32) []byte {
		d := make([]byte, 4+28)
		d[0], d[1], d[2], d[3] = '$', ch, 0, 28
		r := d[4:]
		r[0], r[1], r[2], r[3] = 0x80, 200, 0, 6
		r[16], r[17], r[18], r[19] = byte(rt>>24), byte(rt>>16), byte(rt>>8), byte(rt)
		return d
	}
	_, _ = st.feed(append(sr(1, st.ts), sr(3, st.ats)...))
}

// case = (pin (fault ...)), each fault = bytes of well-framed interleaved frames for stream A
func isoRun(c Val) Val {
	isoQuiet.Do(func() { xlog.ReplaceGlobal(xlog.New(xlog.NewNopCore())) })
	// the converters of the previous case have been told to stop: wait until they are gone
	if !quiesce() {
		return unevalVal("not quiescent before the case")
	}
	if countConverters() != [3]int{0, 0, 0} {
		return L(S("!leak"), S("conversion goroutines of an earlier case are still there at quiescence"))
	}
	a, b := newIsoStream(), newIsoStream()
	defer func() { a.s.Close(); b.s.Close() }()
	want := [3]int{2, 2, 2}
	if c.At(0).Bool() {
		a.pin()
		b.pin()
	}
	if c.At(0).Int() != 2 { // 2: the first fault is the very first media packet of stream A
		// warm-up: the first HLS segment of each stream
		a.probe()
	}
	b.probe()
	out := []Val{}
	faults := c.At(1).List()
	for _, f := range faults {
		panicked, un := a.feed(f.Bytes())
		if un {
			return unevalVal("receive loop of the faulted stream")
		}
		idB, badB, un1 := b.probeSend()
		idA, badA, un2 := a.probeSend()
		joined := a.joinStart()
		if un1 || un2 || !quiesce() {
			return unevalVal("probe / join")
		}
		join := false
		select {
		case <-joined:
			join = true
		default: // quiescent and still inside StartConsume / StopConsume
		}
		other, self := false, false
		if !badB {
			if other, un1 = b.probeCheck(idB); un1 {
				return unevalVal("probe of the other stream")
			}
		}
		if !badA {
			if self, un2 = a.probeCheck(idA); un2 {
				return unevalVal("probe of the faulted stream")
			}
		}
		// the streams' shared metadata survived, and what is produced from it is still right
		self = self && a.metaKept()
		other = other && b.metaKept()
		gor := countConverters() == want
		out = append(out, L(Bo(panicked), Bo(other), Bo(self), Bo(join), Bo(gor)))
		if panicked || !other || !self || !join || !gor {
			// the process is damaged: everything after it would only repeat it
			for len(out) < len(faults) {
				out = append(out, L(I(2), I(0), I(0), I(0), I(0)))
			}
			break
		}
	}
	return L(out...)
}

var _ = codec.MediaTypeVideo
var _ mpegts.FrameWriter
