package main

import (
	"bytes"
	"sync"

	. "vh/lib"

	"github.com/cnotch/ipchub/av/codec"
	"github.com/cnotch/ipchub/av/format/flv"
	"github.com/cnotch/ipchub/av/format/mpegts"
	"github.com/cnotch/xlog"
)

var convEnd = []byte("VERIF-CONV-END")

type tagRec struct {
	mu    sync.Mutex
	media int
	done  chan struct{}
}

func (r *tagRec) WriteFlvTag(t *flv.Tag) error {
	r.mu.Lock()
	defer r.mu.Unlock()
	if bytes.HasSuffix(t.Data, convEnd) {
		select {
		case <-r.done:
		default:
			close(r.done)
		}
		return nil
	}
	if (t.TagType == flv.TagTypeVideo || t.TagType == flv.TagTypeAudio) && len(t.Data) >= 2 && t.Data[1] == 1 {
		r.media++ // NALU / raw AAC, not a sequence header
	}
	return nil
}

// case = (hevc sps pps vps aac asc ((kind payload) ...)) -> (alive mediaTags)
func flvConv(c Val) Val {
	hevc := c.At(0).Bool()
	vm := &codec.VideoMeta{Codec: "H264", ClockRate: 90000, Width: 16, Height: 16,
		Sps: c.At(1).Bytes(), Pps: c.At(2).Bytes(), Vps: c.At(3).Bytes()}
	if hevc {
		vm.Codec = "H265"
	}
	am := &codec.AudioMeta{SampleRate: 44100, SampleSize: 16, Channels: 2, Sps: c.At(5).Bytes()}
	if c.At(4).Bool() {
		am.Codec = "AAC"
	}
	known := len(vm.Sps) >= 4 && len(vm.Pps) > 0
	if hevc {
		known = len(vm.Vps) > 0 && len(vm.Sps) > 0 && len(vm.Pps) > 0
	}
	rec := &tagRec{done: make(chan struct{})}
	dc := &deathCore{died: make(chan struct{})}
	m, err := flv.NewMuxer(vm, am, rec, xlog.New(dc))
	if err != nil {
		return L(S("!error"), S(err.Error()))
	}
	defer m.Close()
	for _, f := range c.At(6).List() {
		m.WriteFrame(&codec.Frame{MediaType: codec.MediaType(f.At(0).Int()), Dts: 0, Pts: 1000000, Payload: f.At(1).Bytes()})
	}
	if !known { // let the muxer drop what it has (quiescent = its queue is empty), then make the sets known so that the end marker gets through
		if !quiesce() {
			return unevalVal("flv muxer did not drain")
		}
		vm.Sps, vm.Pps, vm.Vps = []byte{0x67, 0x42, 0, 0x1f, 1}, []byte{0x68, 1}, []byte{0x40, 1, 1}
	}
	m.WriteFrame(&codec.Frame{MediaType: codec.MediaTypeVideo, Pts: 2000000, Payload: append([]byte{0x41}, convEnd...)})
	dead, uneval := awaitOrIdle(rec.done, dc.died)
	if uneval {
		return unevalVal("converter did not get to the end marker within the long bound")
	}
	alive := !dead
	rec.mu.Lock()
	defer rec.mu.Unlock()
	return L(Bo(alive), I(int64(rec.media)))
}

type tsRec struct {
	mu           sync.Mutex
	video, audio int
	done         chan struct{}
}

func (r *tsRec) WriteMpegtsFrame(f *mpegts.Frame) error {
	r.mu.Lock()
	defer r.mu.Unlock()
	if bytes.HasSuffix(f.Payload, convEnd) {
		select {
		case <-r.done:
		default:
			close(r.done)
		}
		return nil
	}
	if f.IsVideo() {
		r.video++
	} else if f.IsAudio() {
		r.audio++
	}
	return nil
}

// case = (_ sps pps _ _ asc ((kind payload) ...)) -> (alive videoFrames audioFrames)
func tsConv(c Val) Val {
	vm := &codec.VideoMeta{Codec: "H264", ClockRate: 90000, Width: 16, Height: 16, Sps: c.At(1).Bytes(), Pps: c.At(2).Bytes()}
	am := &codec.AudioMeta{Codec: "AAC", SampleRate: 44100, SampleSize: 16, Channels: 2, Sps: c.At(5).Bytes()}
	rec := &tsRec{done: make(chan struct{})}
	dc := &deathCore{died: make(chan struct{})}
	m, err := mpegts.NewMuxer(vm, am, rec, xlog.New(dc))
	if err != nil {
		return L(S("!error"), S(err.Error()))
	}
	defer m.Close()
	for _, f := range c.At(6).List() {
		m.WriteFrame(&codec.Frame{MediaType: codec.MediaType(f.At(0).Int()), Dts: 0, Pts: 1000000, Payload: f.At(1).Bytes()})
	}
	m.WriteFrame(&codec.Frame{MediaType: codec.MediaTypeVideo, Pts: 2000000, Payload: append([]byte{0x41}, convEnd...)})
	dead, uneval := awaitOrIdle(rec.done, dc.died)
	if uneval {
		return unevalVal("converter did not get to the end marker within the long bound")
	}
	alive := !dead
	rec.mu.Lock()
	defer rec.mu.Unlock()
	return L(Bo(alive), I(int64(rec.video)), I(int64(rec.audio)))
}
