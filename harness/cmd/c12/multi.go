// C12, several sessions at once: two or three real sessions (rtsp.CreateAcceptHandler, plain
// or ws-rtsp) on scripted connections in one process with one P and the garbage collector off,
// under the schedule controller.  A session's server-side socket writes are schedule points: a
// response can be stopped after any of its pieces (a fresh connection still has flush tokens, so
// buffered.Conn hands every header piece to the socket separately) while the history lets other
// sessions' requests be answered completely in between; then it continues.  Every session's
// responses must be the run of its own requests.
package main

import (
	"fmt"
	"io"
	"net"
	"runtime"
	"runtime/debug"
	"strconv"
	"strings"
	"sync"
	"sync/atomic"
	"time"

	. "vh/lib"
	"vh/sched"

	"github.com/cnotch/ipchub/media"
	"github.com/cnotch/ipchub/network/websocket"
	"github.com/cnotch/ipchub/service/rtsp"
	"github.com/cnotch/xlog"
)

type mconn struct {
	ctl    *sched.Ctl
	name   string
	in     chan []byte
	pend   []byte
	closed chan struct{}
	once   sync.Once
	mu     sync.Mutex
	wire   []byte
	armed  int32
}

type mAddr struct{}

func (mAddr) Network() string { return "tcp" }
func (mAddr) String() string  { return "127.0.0.1:50012" }

func (c *mconn) Read(p []byte) (int, error) {
	if len(c.pend) == 0 {
		select {
		case b := <-c.in:
			c.pend = b
		case <-c.closed:
			return 0, io.EOF
		}
	}
	n := copy(p, c.pend)
	c.pend = c.pend[n:]
	return n, nil
}

func (c *mconn) Write(p []byte) (int, error) {
	if atomic.LoadInt32(&c.armed) != 0 {
		c.ctl.Here("sock.write:" + c.name) // a slow reader: the write blocks before the bytes are taken
	}
	c.mu.Lock()
	c.wire = append(c.wire, p...)
	c.mu.Unlock()
	return len(p), nil
}
func (c *mconn) Close() error                       { c.once.Do(func() { close(c.closed) }); return nil }
func (c *mconn) LocalAddr() net.Addr                { return mAddr{} }
func (c *mconn) RemoteAddr() net.Addr               { return mAddr{} }
func (c *mconn) SetDeadline(t time.Time) error      { return nil }
func (c *mconn) SetReadDeadline(t time.Time) error  { return nil }
func (c *mconn) SetWriteDeadline(t time.Time) error { return nil }

type mws struct {
	*mconn
	path string
}

func (w mws) Subprotocol() string           { return "rtsp" }
func (w mws) TextTransport() websocket.Conn { return w }
func (w mws) Path() string                  { return w.path }
func (w mws) Username() string              { return "" }

var multiOnce sync.Once
var multiAccept func(net.Conn)

// split a connection's bytes into responses: (class, all CSeq values, all Session values, body is the SDP)
func multiParse(wire []byte, sdps map[string]bool) []Val {
	out := []Val{}
	s := string(wire)
	for len(s) > 0 {
		if s[0] == '$' && len(s) >= 4 {
			n := int(s[2])<<8 | int(s[3])
			if len(s) < 4+n {
				break
			}
			s = s[4+n:]
			continue
		}
		i := strings.Index(s, "\r\n\r\n")
		if i < 0 || !strings.HasPrefix(s, "RTSP/1.0 ") {
			out = append(out, L(I(-1), S(""), S(""), Bo(false))) // not a response
			return out
		}
		head := strings.Split(s[:i], "\r\n")
		s = s[i+4:]
		code := 0
		if f := strings.SplitN(head[0], " ", 3); len(f) >= 2 {
			code, _ = strconv.Atoi(f[1])
		}
		var cseq, sid []string
		clen, ctype := 0, ""
		for _, h := range head[1:] {
			j := strings.IndexByte(h, ':')
			if j < 0 {
				continue
			}
			k, v := strings.ToLower(strings.TrimSpace(h[:j])), strings.TrimSpace(h[j+1:])
			switch k {
			case "cseq":
				cseq = append(cseq, v)
			case "session":
				sid = append(sid, v)
			case "content-length":
				clen, _ = strconv.Atoi(v)
			case "content-type":
				ctype = v
			}
		}
		body := ""
		if clen > 0 {
			if len(s) < clen {
				out = append(out, L(I(-1), S(strings.Join(cseq, ",")), S(strings.Join(sid, ",")), Bo(false))) // body announced, not there
				return out
			}
			body, s = s[:clen], s[clen:]
		}
		hasBody := clen > 0 || ctype != ""
		if hasBody && !(ctype == "application/sdp" && sdps[body]) {
			out = append(out, L(I(-1), S(strings.Join(cseq, ",")), S(strings.Join(sid, ",")), Bo(true)))
			continue
		}
		out = append(out, L(I(codeClass(code)), S(strings.Join(cseq, ",")), S(strings.Join(sid, ",")), Bo(hasBody)))
	}
	return out
}

// case = ( ((path sdpid mcast) ..) ((ws wspath) ..) ((session request) ..) ((history-index pieces) ..) )
// observation = ( ((session-id ((class cseq sid body) ..)) ..) note )
func runMulti(c Val) Val {
	multiOnce.Do(func() {
		runtime.GOMAXPROCS(1)  // one P: what goes back to a sync.Pool is what the next Get hands out
		debug.SetGCPercent(-1) // a collection would empty the pools
		xlog.ReplaceGlobal(xlog.New(xlog.NewNopCore()))
		multiAccept = rtsp.CreateAcceptHandler()
	})
	envl, sessv, hist, parks := c.At(0).List(), c.At(1).List(), c.At(2).List(), c.At(3).List()
	media.UnregistAll()
	runtime.GC() // between cases only: within a case the pools keep what was put into them
	sdps := map[string]bool{}
	for _, e := range envl {
		media.Regist(media.NewStream(e.At(0).Str(), sdpText(e.At(1).Int())))
		sdps[sdpText(e.At(1).Int())] = true
	}
	ctl := sched.New()
	defer ctl.Finish()
	ctl.Role = func(point string, id uint32) string {
		if i := strings.IndexByte(point, ':'); i >= 0 && strings.HasPrefix(point, "sock.write") {
			return point[i+1:]
		}
		return ""
	}
	ctl.Allow = func(thread, point string) bool { return strings.HasPrefix(point, "sock.write") }
	conns := make([]*mconn, len(sessv))
	defer func() {
		for _, cn := range conns {
			if cn != nil {
				cn.Close()
			}
		}
		media.UnregistAll()
	}()
	for i, sv := range sessv {
		cn := &mconn{ctl: ctl, name: fmt.Sprintf("s%d", i), in: make(chan []byte, 64), closed: make(chan struct{})}
		conns[i] = cn
		if sv.At(0).Bool() {
			multiAccept(mws{cn, sv.At(1).Str()})
		} else {
			multiAccept(cn)
		}
	}
	ctl.Settle()
	pieces := map[int]int{}
	for _, p := range parks {
		pieces[int(p.At(0).Int())] = int(p.At(1).Int())
	}
	parked := map[int]bool{}
	note := ""
	nparked := 0
	release := func(i int) {
		atomic.StoreInt32(&conns[i].armed, 0)
		for g := 0; g < 200 && strings.HasPrefix(ctl.Status(conns[i].name), "sock.write"); g++ {
			ctl.Step(conns[i].name)
		}
		delete(parked, i)
	}
	for k, hv := range hist {
		i := int(hv.At(0).Int())
		if i < 0 || i >= len(conns) {
			return L(S("!badcase"))
		}
		if parked[i] {
			release(i) // a session handles its requests one after the other
		}
		text, ok := requestText(hv.At(1), 50000)
		if !ok {
			return L(S("!badcase"))
		}
		n := pieces[k]
		if n > 0 {
			atomic.StoreInt32(&conns[i].armed, 1)
		}
		conns[i].in <- []byte(text)
		ctl.Settle()
		if n > 0 {
			if strings.HasPrefix(ctl.Status(conns[i].name), "sock.write") {
				nparked++
				for g := 1; g < n && strings.HasPrefix(ctl.Status(conns[i].name), "sock.write"); g++ {
					ctl.Step(conns[i].name)
				}
				if strings.HasPrefix(ctl.Status(conns[i].name), "sock.write") {
					parked[i] = true // stays in the middle of its response while others are served
				}
			} else {
				atomic.StoreInt32(&conns[i].armed, 0)
			}
		}
	}
	for i := range conns {
		if parked[i] {
			release(i)
		}
	}
	ctl.Finish()
	ctl.Settle()
	if nparked == 0 && len(parks) > 0 {
		note = "no response was stopped mid-way"
	}
	out := make([]Val, len(conns))
	for i, cn := range conns {
		cn.mu.Lock()
		wire := append([]byte(nil), cn.wire...)
		cn.mu.Unlock()
		rs := multiParse(wire, sdps)
		sid := ""
		for _, r := range rs {
			if v := r.At(2).Str(); v != "" && !strings.Contains(v, ",") {
				sid = v
				break
			}
		}
		out[i] = L(S(sid), L(rs...))
	}
	return L(L(out...), S(note))
}

func init() { commands["C12_multi"] = runMulti }
