// C12 harness: drives real RTSP sessions (rtsp.CreateAcceptHandler on a loopback
// listener; plain TCP or wrapped as a ws-rtsp websocket.Conn) with generated
// request sequences and reports, per request: the responses read before the
// answer to a sentinel OPTIONS (so a missing or duplicated response is seen
// without timing), whether the server closed, the registry (media.Get of the
// watched paths, owner and consumer count), and whether media reached the client.
package main

import (
	"bufio"
	"fmt"
	"io"
	"net"
	"net/url"
	"strconv"
	"strings"
	"sync/atomic"
	"time"

	"vh/c12wsp"
	. "vh/lib"

	"github.com/cnotch/ipchub/av/format/rtp"
	"github.com/cnotch/ipchub/media"
	"github.com/cnotch/ipchub/network/websocket"
	"github.com/cnotch/ipchub/service/rtsp"
	"github.com/cnotch/xlog"
)

var commands = map[string]func(Val) Val{}

func main() { Main(commands) }

// ---------------------------------------------------------------- SDP texts (ids shared with Run/RunC12.v sdp_table)
const sdpHead = "v=0\r\no=- 0 0 IN IP4 127.0.0.1\r\ns=No Name\r\nc=IN IP4 127.0.0.1\r\nt=0 0\r\n"
const sdpVideo = "m=video 0 RTP/AVP 96\r\na=rtpmap:96 H264/90000\r\na=fmtp:96 packetization-mode=1; sprop-parameter-sets=Z2QAH6zZQFAFuhAAAAMAEAAAAwPI8YMZYA==,aO+8sA==; profile-level-id=64001F\r\n"
const sdpAudio = "m=audio 0 RTP/AVP 97\r\na=rtpmap:97 MPEG4-GENERIC/44100/2\r\na=fmtp:97 profile-level-id=1;mode=AAC-hbr;sizelength=13;indexlength=3;indexdeltalength=3; config=121056E500\r\n"

var sdpTexts = map[int64]string{
	0: "",
	1: sdpHead + sdpVideo + "a=control:streamid=0\r\n" + sdpAudio + "a=control:streamid=1\r\n",
	2: sdpHead + sdpVideo + "a=control:streamid=0\r\n",
	3: sdpHead + sdpAudio + "a=control:streamid=1\r\n",
	4: "this is not an SDP description\r\n",
	5: sdpHead + sdpVideo + "a=control:rtsp://127.0.0.1/live/a/streamid=0\r\n" + sdpAudio + "a=control:RTSP://127.0.0.1:554/live/a/streamid=1\r\n",
	6: sdpHead + sdpVideo + sdpAudio + "a=control:streamid=1\r\n",
	7: sdpHead + sdpVideo + "a=control:rtsp://%zz/x\r\n" + sdpAudio + "a=control:streamid=1\r\n",
	8: sdpHead + sdpVideo + "a=control:trk\r\n" + sdpAudio + "a=control:trk\r\n",
}

func sdpText(id int64) string {
	if t, ok := sdpTexts[id]; ok {
		return t
	}
	return "garbage " + strconv.FormatInt(id, 10)
}

// ---------------------------------------------------------------- server side
type wsWrap struct {
	net.Conn
	path string
}

func (w *wsWrap) Subprotocol() string           { return "rtsp" }
func (w *wsWrap) TextTransport() websocket.Conn { return w }
func (w *wsWrap) Path() string                  { return w.path }
func (w *wsWrap) Username() string              { return "" }

var (
	listener net.Listener
	nextWS   = make(chan string, 1) // "" = plain TCP; otherwise "ws:" + path for the next accepted connection
)

func startServer() {
	if listener != nil {
		return
	}
	xlog.ReplaceGlobal(xlog.New(xlog.NewNopCore()))
	l, err := net.Listen("tcp", "127.0.0.1:0")
	if err != nil {
		panic(err)
	}
	listener = l
	handler := rtsp.CreateAcceptHandler()
	go func() {
		for {
			c, err := l.Accept()
			if err != nil {
				return
			}
			kind := <-nextWS
			if strings.HasPrefix(kind, "ws:") {
				handler(&wsWrap{Conn: c, path: kind[3:]})
			} else {
				handler(c)
			}
		}
	}()
}

func dial(ws bool, path string) net.Conn {
	if ws {
		nextWS <- "ws:" + path
	} else {
		nextWS <- ""
	}
	c, err := net.Dial("tcp", listener.Addr().String())
	if err != nil {
		panic(err)
	}
	return c
}

// ---------------------------------------------------------------- client side
type client struct {
	conn   net.Conn
	br     *bufio.Reader
	frames int  // interleaved frames received so far
	dead   bool // EOF / reset seen
}

type response struct {
	code    int
	cseq    string
	session string
}

// next reads one message: an interleaved frame (resp == nil) or a response.
func (c *client) next(deadline time.Duration) (resp *response, err error) {
	c.conn.SetReadDeadline(time.Now().Add(deadline))
	b, err := c.br.Peek(1)
	if err != nil {
		return nil, err
	}
	if b[0] == '$' {
		var h [4]byte
		if _, err = io.ReadFull(c.br, h[:]); err != nil {
			return nil, err
		}
		n := int(h[2])<<8 | int(h[3])
		if _, err = io.CopyN(io.Discard, c.br, int64(n)); err != nil {
			return nil, err
		}
		c.frames++
		return nil, nil
	}
	line, err := c.br.ReadString('\n')
	if err != nil {
		return nil, err
	}
	r := &response{}
	parts := strings.SplitN(strings.TrimSpace(line), " ", 3)
	if len(parts) >= 2 {
		r.code, _ = strconv.Atoi(parts[1])
	}
	clen := 0
	for {
		h, err := c.br.ReadString('\n')
		if err != nil {
			return nil, err
		}
		h = strings.TrimRight(h, "\r\n")
		if h == "" {
			break
		}
		i := strings.IndexByte(h, ':')
		if i < 0 {
			continue
		}
		k, v := strings.ToLower(strings.TrimSpace(h[:i])), strings.TrimSpace(h[i+1:])
		switch k {
		case "cseq":
			r.cseq = v
		case "session":
			r.session = v
		case "content-length":
			clen, _ = strconv.Atoi(v)
		}
	}
	if clen > 0 {
		if _, err = io.CopyN(io.Discard, c.br, int64(clen)); err != nil {
			return nil, err
		}
	}
	return r, nil
}

func isTimeout(err error) bool {
	ne, ok := err.(net.Error)
	return ok && ne.Timeout()
}

const sentinelCSeq = "99999"

// circuit breakers: a broken implementation must not turn every remaining case into a long wait
var (
	timeouts    int // reads that hit their deadline so far (whole run)
	slowSettles int // registry polls that ran into their deadline so far
)

var methodNames = map[int64]string{0: "OPTIONS", 1: "DESCRIBE", 2: "ANNOUNCE", 3: "SETUP", 4: "PLAY", 5: "RECORD",
	6: "TEARDOWN", 7: "PAUSE", 8: "GET_PARAMETER", 9: "SET_PARAMETER", 10: "REDIRECT", 11: "FOOBAR"}

func requestText(q Val, udpPort int) (string, bool) {
	m := q.At(0).Int()
	name, ok := methodNames[m]
	if !ok {
		name = "X" + strconv.FormatInt(m, 10)
	}
	us, path := q.At(2).Str(), q.At(3).Str()
	u, err := url.ParseRequestURI(us)
	if err != nil || u.Path != path || u.Port() == "" || u.String() != us {
		return "", false // the generator promised url/path consistency
	}
	var sb strings.Builder
	fmt.Fprintf(&sb, "%s %s RTSP/1.0\r\n", name, us)
	if cs := q.At(1).Str(); cs != "" {
		fmt.Fprintf(&sb, "CSeq: %s\r\n", cs)
	}
	body := ""
	switch m {
	case 3:
		if ts := q.At(4).Str(); ts != "" {
			ts = strings.Replace(ts, "50000", strconv.Itoa(udpPort), -1)
			ts = strings.Replace(ts, "50001", strconv.Itoa(udpPort+1), -1)
			fmt.Fprintf(&sb, "Transport: %s\r\n", ts)
		}
	case 2:
		if q.At(5).Bool() {
			sb.WriteString("Content-Type: application/sdp\r\n")
		} else {
			sb.WriteString("Content-Type: text/plain\r\n")
		}
		body = sdpText(q.At(6).Int())
	}
	if body != "" {
		fmt.Fprintf(&sb, "Content-Length: %d\r\n", len(body))
	}
	sb.WriteString("\r\n")
	sb.WriteString(body)
	return sb.String(), true
}

func codeClass(c int) int64 {
	switch {
	case c >= 200 && c < 300:
		return 2
	case c == 455:
		return 455
	case c >= 400 && c < 500:
		return 4
	case c >= 500 && c < 600:
		return 5
	}
	return 0
}

// ---------------------------------------------------------------- the world: pre-published streams
type world struct {
	ext        map[string]*media.Stream
	publishers []net.Conn
	seq        uint16
}

// publish through a real ANNOUNCE/SETUP/RECORD session (gives a multicastable stream)
var publisherCtl = map[int64]string{1: "streamid=0", 2: "streamid=0", 3: "streamid=1", 6: "streamid=1", 8: "trk"}

func publishViaSession(path string, sdpID int64) (net.Conn, error) {
	sdp := sdpText(sdpID)
	c := &client{conn: dial(false, "")}
	c.br = bufio.NewReader(c.conn)
	u := "rtsp://127.0.0.1:554" + path
	su := u + "/" + publisherCtl[sdpID]
	if sdpID == 5 {
		su = "rtsp://127.0.0.1:554/live/a/streamid=0"
	}
	reqs := []string{
		fmt.Sprintf("ANNOUNCE %s RTSP/1.0\r\nCSeq: 1\r\nContent-Type: application/sdp\r\nContent-Length: %d\r\n\r\n%s", u, len(sdp), sdp),
		fmt.Sprintf("SETUP %s RTSP/1.0\r\nCSeq: 2\r\nTransport: RTP/AVP/TCP;unicast;interleaved=0-1;mode=record\r\n\r\n", su),
		fmt.Sprintf("RECORD %s RTSP/1.0\r\nCSeq: 3\r\n\r\n", u),
	}
	for _, r := range reqs {
		if _, err := c.conn.Write([]byte(r)); err != nil {
			return c.conn, err
		}
		resp, err := c.next(3 * time.Second)
		if err != nil {
			return c.conn, err
		}
		if resp == nil || resp.code != 200 {
			return c.conn, fmt.Errorf("publisher refused")
		}
	}
	return c.conn, nil
}

func (w *world) close() {
	for _, p := range w.publishers {
		p.Close()
	}
	media.UnregistAll()
}

func rtpPacket(seq uint16, audio bool) *rtp.Packet {
	// video: one non-IDR slice NAL; audio: one 4-byte AAC access unit (AU-headers-length 16, size 4)
	data := []byte{0x80, 96, byte(seq >> 8), byte(seq), 0, 0, 0, 1, 0x11, 0x22, 0x33, 0x44,
		0x41, 0x9a, 0x24, 0x6c, 0x41, 0x4f, 0xfe, 0xd0, 0x10, 0x20, 0x30, 0x40}
	ch := byte(rtp.ChannelVideo)
	if audio {
		data = []byte{0x80, 97, byte(seq >> 8), byte(seq), 0, 0, 0, 1, 0x55, 0x66, 0x77, 0x88,
			0x00, 0x10, 0x00, 0x20, 0xd1, 0xd2, 0xd3, 0xd4}
		ch = rtp.ChannelAudio
	}
	p := &rtp.Packet{Channel: ch, Data: data}
	if err := p.Header.Unmarshal(p.Data); err != nil {
		panic(err)
	}
	return p
}

func (w *world) registry(watch []Val) (Val, bool) {
	out := make([]Val, 0, len(watch))
	self := false
	for _, p := range watch {
		path := p.Str()
		s := media.Get(path)
		kind, cons := int64(0), int64(0)
		if s != nil {
			cons = int64(s.ConsumerCount())
			if s == w.ext[path] {
				kind = 1
			} else {
				kind = 2
			}
		}
		if kind == 2 || cons != 0 {
			self = true
		}
		out = append(out, L(I(kind), I(cons)))
	}
	return L(out...), self
}

// after the connection is gone the session's cleanup runs in its own goroutine:
// wait (bounded) for the state the property demands, then report what is there
func (w *world) settledRegistry(watch []Val) Val {
	d := 4 * time.Second
	if slowSettles > 8 {
		d = 20 * time.Millisecond
	}
	deadline := time.Now().Add(d)
	for {
		r, self := w.registry(watch)
		if !self {
			return r
		}
		if time.Now().After(deadline) {
			slowSettles++
			return r
		}
		time.Sleep(200 * time.Microsecond)
	}
}

func (w *world) feed() (anyConsumer bool) {
	w.seq++
	for _, s := range w.ext {
		if media.Get(s.Path()) == s {
			if s.ConsumerCount() > 0 {
				anyConsumer = true
			}
			s.WriteRtpPacket(rtpPacket(w.seq, false))
			s.WriteRtpPacket(rtpPacket(w.seq, true))
		}
	}
	return
}

// ---------------------------------------------------------------- one case
func runCase(c Val) Val {
	startServer()
	ws, wspath := c.At(0).Bool(), c.At(1).Str()
	envl, watch, reqs := c.At(2).List(), c.At(3).List(), c.At(4).List()

	w := &world{ext: map[string]*media.Stream{}}
	defer w.close()
	for _, e := range envl {
		path, sdp, mcast := e.At(0).Str(), sdpText(e.At(1).Int()), e.At(2).Bool()
		if mcast {
			pc, err := publishViaSession(path, e.At(1).Int())
			if pc != nil {
				w.publishers = append(w.publishers, pc)
			}
			if err != nil {
				return L(S("!setup"), S(err.Error()))
			}
		} else {
			media.Regist(media.NewStream(path, sdp))
		}
		s := media.Get(path)
		if s == nil || s.Path() != path {
			return L(S("!setup"), S("stream not registered at "+path))
		}
		w.ext[path] = s
	}

	// where UDP media for this client would arrive
	udp, err := net.ListenUDP("udp", &net.UDPAddr{IP: net.IPv4(127, 0, 0, 1)})
	if err != nil {
		return L(S("!setup"), S(err.Error()))
	}
	defer udp.Close()
	var udpSeen int32
	go func() {
		buf := make([]byte, 2048)
		for {
			if _, _, err := udp.ReadFrom(buf); err != nil {
				return
			}
			atomic.StoreInt32(&udpSeen, 1)
		}
	}()
	udpPort := udp.LocalAddr().(*net.UDPAddr).Port

	cl := &client{conn: dial(ws, wspath)}
	cl.br = bufio.NewReader(cl.conn)
	defer cl.conn.Close()

	steps := make([]Val, 0, len(reqs))
	medias := make([]Val, 0, len(reqs))
	waited := false
	wedged := false
	mediaSeen := func() bool { return cl.frames > 0 || atomic.LoadInt32(&udpSeen) != 0 }

	// the session's effects on the registry: the streams it has created so far (anything registered that
	// the harness did not publish), whether they are live, and who consumes them
	nrec, wantPlayer := int(c.At(5).At(0).Int()), c.At(5).At(1).Bool()
	effNote = ""
	var created []*media.Stream
	var recs []*effRec
	var player net.Conn
	var playerEnded int32
	effects := []Val{}
	scanEffects := func() {
		for _, s := range media.VerifRegistry() {
			mine := true
			for _, e := range w.ext {
				if e == s {
					mine = false
				}
			}
			for _, k := range created {
				if k == s {
					mine = false
				}
			}
			if !mine {
				continue
			}
			created = append(created, s)
			if len(created) == 1 {
				for i := 0; i < nrec; i++ {
					r := &effRec{}
					recs = append(recs, r)
					s.StartConsume(r, media.RTPPacket, "verif-effects")
				}
				if wantPlayer {
					player = effPlayer(s.Path(), &playerEnded)
					// the PLAY answer is written before the consumer is registered (asTCPConsumer)
					stop := time.Now().Add(2 * time.Second)
					for s.ConsumerCount() < nrec+1 && time.Now().Before(stop) {
						time.Sleep(100 * time.Microsecond)
					}
					if s.ConsumerCount() < nrec+1 {
						effNote += fmt.Sprintf("player not consuming (%d);", s.ConsumerCount())
					}
				}
			}
		}
		count := func() (live, cons int) {
			for _, s := range created {
				if media.VerifStatus(s) == media.StreamOK {
					live++
				}
				cons += s.ConsumerCount()
			}
			return
		}
		live, cons := count()
		if cl.dead {
			// the connection is gone: the session's cleanup runs in its own goroutine
			stop := time.Now().Add(2 * time.Second)
			if effSlow > 3 {
				stop = time.Now().Add(30 * time.Millisecond)
			}
			for (live != 0 || cons != 0) && time.Now().Before(stop) {
				time.Sleep(200 * time.Microsecond)
				live, cons = count()
			}
		}
		effects = append(effects, L(I(int64(len(created))), I(int64(live)), I(int64(cons))))
	}
	defer func() {
		if player != nil {
			player.Close()
		}
		for _, s := range created {
			s.Close()
		}
	}()

	for _, q := range reqs {
		resps := []Val{}
		if !cl.dead && !wedged {
			text, ok := requestText(q, udpPort)
			if !ok {
				return L(S("!badcase"))
			}
			teardown := q.At(0).Int() == 6
			if !teardown {
				text += "OPTIONS * RTSP/1.0\r\nCSeq: " + sentinelCSeq + "\r\n\r\n"
			}
			cl.conn.Write([]byte(text))
			for {
				// after TEARDOWN the end of the exchange is the server closing the connection
				d := 6 * time.Second
				if teardown {
					d = 5 * time.Second
				}
				if timeouts > 4 {
					d = 30 * time.Millisecond
				}
				r, err := cl.next(d)
				if err != nil {
					if !isTimeout(err) {
						cl.dead = true
					} else {
						timeouts++
						if !teardown {
							// no answer to the sentinel: the connection is wedged; report and stop using it
							resps = append(resps, L(I(-1), S("!timeout"), I(0)))
							wedged = true
						}
					}
					break
				}
				if r == nil {
					continue // interleaved frame, counted
				}
				if r.cseq == sentinelCSeq {
					break
				}
				resps = append(resps, L(I(codeClass(r.code)), S(r.cseq), Bo(r.session != "")))
			}
		}
		var reg Val
		if cl.dead {
			reg = w.settledRegistry(watch)
		} else {
			reg, _ = w.registry(watch)
		}
		// media: one packet into every live pre-published stream after each step
		if w.feed() && !mediaSeen() && !waited && !cl.dead {
			// somebody consumes: give the packet a short bounded chance to arrive (non-vacuity of the
			// media flag; UDP arrives at once, interleaved TCP media is flushed with the next response)
			waited = true
			stop := time.Now().Add(4 * time.Millisecond)
			for time.Now().Before(stop) && !mediaSeen() {
				cl.conn.SetReadDeadline(time.Now().Add(time.Millisecond))
				if b, err := cl.br.Peek(1); err == nil && b[0] == '$' {
					cl.next(time.Second)
				} else if err != nil && !isTimeout(err) {
					cl.dead = true
					break
				}
			}
		}
		steps = append(steps, L(L(resps...), Bo(cl.dead), reg))
		medias = append(medias, Bo(mediaSeen()))
		scanEffects()
	}
	// the client disconnects
	cl.conn.Close()
	final := w.settledRegistry(watch)
	// every stream the session ever created is closed and every consumer of it released
	attached := len(recs)
	if player != nil {
		attached++
	}
	effFinal := func() (live, cons, released int) {
		for _, s := range created {
			if media.VerifStatus(s) == media.StreamOK {
				live++
			}
			cons += s.ConsumerCount()
		}
		for _, r := range recs {
			if atomic.LoadInt32(&r.closed) > 0 {
				released++
			}
		}
		if player != nil && atomic.LoadInt32(&playerEnded) != 0 {
			released++
		}
		return
	}
	deadline := time.Now().Add(2 * time.Second)
	if effSlow > 3 {
		deadline = time.Now().Add(30 * time.Millisecond)
	}
	live, cons, released := effFinal()
	for (live != 0 || cons != 0 || released != attached) && time.Now().Before(deadline) {
		time.Sleep(200 * time.Microsecond)
		live, cons, released = effFinal()
	}
	if live != 0 || cons != 0 || released != attached {
		effSlow++
	}
	return L(L(steps...), final, L(medias...),
		L(L(effects...), L(I(int64(live)), I(int64(cons)), I(int64(attached)), I(int64(released))), S(effNote)))
}

var effSlow int
var effNote string

// recording consumer attached to a stream the session under test has published
type effRec struct{ closed int32 }

func (r *effRec) Consume(p media.Pack) {}
func (r *effRec) Close() error         { atomic.AddInt32(&r.closed, 1); return nil }

// a real RTSP/TCP player of the published stream; *ended is set when its connection ends
func effPlayer(path string, ended *int32) net.Conn {
	nextWS <- ""
	nc, err := net.Dial("tcp", listener.Addr().String())
	if err != nil {
		return nil
	}
	pc := &client{conn: nc, br: bufio.NewReader(nc)}
	u := "rtsp://127.0.0.1:554" + path
	for _, r := range []string{
		fmt.Sprintf("DESCRIBE %s RTSP/1.0\r\nCSeq: 1\r\n\r\n", u),
		fmt.Sprintf("SETUP %s/streamid=0 RTSP/1.0\r\nCSeq: 2\r\nTransport: RTP/AVP/TCP;unicast;interleaved=0-1\r\n\r\n", u),
		fmt.Sprintf("PLAY %s RTSP/1.0\r\nCSeq: 3\r\n\r\n", u),
	} {
		if _, err := nc.Write([]byte(r)); err != nil {
			break
		}
		resp, err := pc.next(3 * time.Second)
		for err == nil && resp == nil {
			resp, err = pc.next(3 * time.Second)
		}
		if err != nil {
			effNote += fmt.Sprintf("player: %v;", err)
			break
		}
		if resp.code != 200 {
			effNote += fmt.Sprintf("player: %d to %.20q;", resp.code, r)
		}
	}
	go func() {
		for {
			if _, err := pc.next(time.Hour); err != nil {
				atomic.StoreInt32(ended, 1)
				return
			}
		}
	}()
	return nc
}

func init() {
	commands["C12"] = runCase
	// the WSP variant (service/wsp) lives in its own package
	c12wsp.SdpText = sdpText
	for k, f := range c12wsp.Commands() {
		commands[k] = f
	}

	// what the real SDP parser + getControlPath make of SDP text <id>
	commands["sdp"] = func(c Val) Val {
		ok, v, vok, a, aok := rtsp.VerifParseSdp(sdpText(c.Int()))
		if !ok || sdpText(c.Int()) == "" {
			return L(I(0))
		}
		enc := func(has bool, p string, good bool) Val {
			if !has {
				return L()
			}
			if !good {
				return L(I(0))
			}
			return L(I(1), S(p))
		}
		t := sdpText(c.Int())
		return L(I(1), enc(strings.Contains(t, "m=video"), v, vok), enc(strings.Contains(t, "m=audio"), a, aok))
	}

	// RTPTransport.ParseTransport alone: (mode0 type0 text) -> (mode type err)
	commands["transport"] = func(c Val) Val {
		t := rtsp.RTPTransport{Mode: rtsp.SessionMode(c.At(0).Int()), Type: rtsp.RTPTransportType(c.At(1).Int())}
		for i := range t.Channels {
			t.Channels[i] = -1
			t.ClientPorts[i] = -1
		}
		err := t.ParseTransport(int(c.At(3).Int()), c.At(2).Str())
		return L(I(int64(t.Mode)), I(int64(t.Type)), Bo(err != nil))
	}
}
