// C12, read deadline: one real RTSP/TCP session with config.NetTimeout shortened; requests and waits.
// After a wait the harness reports whether the server has closed the connection.  A wait tagged with a
// patience (the model-independent generator knows the session is idle there) keeps listening for the
// close up to that bound; if the close does not come the case is cut short (unevaluated), so a slow
// machine never turns into a violation.
package main

import (
	"bufio"
	"time"

	. "vh/lib"

	"github.com/cnotch/ipchub/config"
	"github.com/cnotch/ipchub/media"
)

// case = ( ((path sdpid mcast) ..) T-ms ( (0 request) | (1 d-ms patience-ms) .. ) )
// observation = ( ( (0 ((class cseq) ..)) | (1 gone) .. ) note )
func runTimeout(c Val) Val {
	startServer()
	media.UnregistAll()
	for _, e := range c.At(0).List() {
		media.Regist(media.NewStream(e.At(0).Str(), sdpText(e.At(1).Int())))
	}
	defer media.UnregistAll()
	config.VerifSetNetTimeout(time.Duration(c.At(1).Int()) * time.Millisecond)
	defer config.VerifSetNetTimeout(0)
	cl := &client{conn: dial(false, "")}
	cl.br = bufio.NewReader(cl.conn)
	defer cl.conn.Close()
	out := []Val{}
	note := ""
	for _, ev := range c.At(2).List() {
		if ev.At(0).Int() == 0 {
			resps := []Val{}
			if !cl.dead {
				text, ok := requestText(ev.At(1), 50000)
				if !ok {
					return L(S("!badcase"))
				}
				cl.conn.Write([]byte(text))
				for {
					r, err := cl.next(3 * time.Second)
					if err != nil {
						if !isTimeout(err) {
							cl.dead = true
						}
						break
					}
					if r == nil {
						continue
					}
					resps = append(resps, L(I(codeClass(r.code)), S(r.cseq)))
					break
				}
			}
			out = append(out, L(I(0), L(resps...)))
			continue
		}
		// a wait: watch the connection for the server's close
		d := time.Duration(ev.At(1).Int()+ev.At(2).Int()) * time.Millisecond
		gone := cl.dead
		stop := time.Now().Add(d)
		for !gone && time.Now().Before(stop) {
			r, err := cl.next(time.Until(stop))
			if err != nil {
				if !isTimeout(err) {
					cl.dead, gone = true, true
				}
				break
			}
			_ = r // interleaved media or a stray response: keep waiting
		}
		g := int64(0)
		if gone {
			g = 1
		}
		out = append(out, L(I(1), I(g)))
		if !gone && ev.At(2).Int() > 0 {
			note = "not dropped within the patience: rest unevaluated"
			break
		}
	}
	return L(L(out...), S(note))
}

func init() { commands["C12_timeout"] = runTimeout }
