// C10 harness: drives the real hls.SegmentGenerator / hls.Playlist through the
// real H.264 / AAC TS packetizers with synthetic PTS (no real time passes) and
// reports, after every operation, the playlist (raw text and a parsed view),
// the sequence numbers Segment resolves, the .ts files on disk and the content
// of every newly listed segment, demultiplexed to frames.  A demultiplexed
// segment is re-multiplexed with the real mpegts.Writer and must give the same
// bytes, so the frame list determines the segment byte for byte.
package main

import (
	"bytes"
	"fmt"
	"io"
	"io/ioutil"
	"os"
	"runtime"
	"sort"
	"strconv"
	"strings"
	"sync"
	"time"

	. "vh/lib"
	"vh/sched"

	"github.com/cnotch/ipchub/av/codec"
	"github.com/cnotch/ipchub/av/codec/aac"
	"github.com/cnotch/ipchub/av/format/hls"
	"github.com/cnotch/ipchub/av/format/mpegts"
	"github.com/cnotch/ipchub/utils/murmur"
)

var commands = map[string]func(Val) Val{}

func main() { Main(commands) }

// 90 kHz ticks -> the nanosecond value the packetizers turn back into exactly p ticks
func ns(p int64) int64 {
	if p >= 0 {
		return (p*100000 + 8) / 9
	}
	return -((-p) * 100000 / 9)
}

type tsFrame struct {
	pid      int
	pts, dts int64
	key      bool
	es       []byte
}

var tsHeader []byte

func init() {
	var b bytes.Buffer
	mpegts.NewWriter(&b)
	tsHeader = append([]byte(nil), b.Bytes()...)
}

func pts33(b []byte) int64 {
	return int64(b[0]>>1&7)<<30 | int64((uint16(b[1])<<8|uint16(b[2]))>>1)<<15 | int64((uint16(b[3])<<8|uint16(b[4]))>>1)
}

// demux splits a segment into the frames its PES packets carry; ok = false if it is not the
// PAT/PMT header followed by whole, well-formed packets with contiguous continuity counters.
func demux(data []byte) (frames []tsFrame, ok bool) {
	if len(data) < len(tsHeader) || !bytes.Equal(data[:len(tsHeader)], tsHeader) || len(data)%188 != 0 {
		return nil, false
	}
	cc := map[int]int{}
	var cur *tsFrame
	flush := func() {
		if cur != nil {
			frames = append(frames, *cur)
			cur = nil
		}
	}
	for off := len(tsHeader); off < len(data); off += 188 {
		p := data[off : off+188]
		if p[0] != 0x47 {
			return nil, false
		}
		pid := int(p[1]&0x1f)<<8 | int(p[2])
		pusi := p[1]&0x40 != 0
		cc[pid]++
		if int(p[3]&0x0f) != cc[pid]&0x0f || p[3]&0x10 == 0 {
			return nil, false
		}
		pos := 4
		key := false
		if p[3]&0x20 != 0 {
			al := int(p[4])
			if al > 0 && p[5]&0x40 != 0 {
				key = true
			}
			pos = 5 + al
			if pos > 188 {
				return nil, false
			}
		}
		if pusi {
			flush()
			if pos+9 > 188 || p[pos] != 0 || p[pos+1] != 0 || p[pos+2] != 1 {
				return nil, false
			}
			flags := p[pos+7]
			hl := int(p[pos+8])
			if pos+9+hl > 188 || flags&0x80 == 0 {
				return nil, false
			}
			f := &tsFrame{pid: pid, key: key}
			f.pts = pts33(p[pos+9:])
			f.dts = f.pts
			if flags&0x40 != 0 {
				f.dts = pts33(p[pos+14:])
			}
			f.es = append(f.es, p[pos+9+hl:]...)
			cur = f
		} else {
			if cur == nil || cur.pid != pid {
				return nil, false
			}
			cur.es = append(cur.es, p[pos:]...)
		}
	}
	flush()
	return frames, true
}

func remux(frames []tsFrame) []byte {
	var b bytes.Buffer
	w, _ := mpegts.NewWriter(&b)
	for _, f := range frames {
		sid := 0xe0
		if f.pid == 257 {
			sid = 0xc0
		}
		w.WriteMpegtsFrame(mpegts.VerifNewFrame(f.pid, sid, f.dts, f.pts, nil, f.es, f.key))
	}
	return b.Bytes()
}

// segObs: ( ok ( ( pid pts dts key es ) ... ) )
func segObs(data []byte, size int) Val {
	frames, ok := demux(data)
	ok = ok && size == len(data) && bytes.Equal(remux(frames), data)
	fs := []Val{}
	for _, f := range frames {
		fs = append(fs, L(I(int64(f.pid)), I(f.pts), I(f.dts), Bo(f.key), B(f.es)))
	}
	return L(Bo(ok), L(fs...))
}

func readAll(r io.Reader) []byte {
	if s, ok := r.(io.Seeker); ok {
		s.Seek(0, io.SeekStart)
	}
	b, _ := ioutil.ReadAll(r)
	return b
}

func closeReader(r io.Reader) {
	if c, ok := r.(io.Closer); ok {
		c.Close()
	}
}

func atoi(s string) (int64, bool) {
	n, err := strconv.ParseInt(s, 10, 64)
	return n, err == nil
}

// parseM3u8: ( target mseq ( ( disc ms uri tok ) ... ) ); a text of another shape gives target -1,
// which the oracle rejects because the rendering of the view must reproduce the raw text.
//
// The URI line is split into URI and token only where it ends with "?token=" + the token that was asked for (paths
// and tokens may themselves contain '?', '=', '%', "?token="); otherwise the whole line is the URI and the token is
// empty.  Whether the lines are right is decided in Coq on the raw text (uri_lines), not here.
func parseM3u8(text string, tok string) Val {
	bad := L(I(-1), I(-1), L())
	lines := strings.Split(text, "\n")
	if len(lines) < 7 || lines[0] != "#EXTM3U" || lines[1] != "#EXT-X-VERSION:3" || lines[2] != "#EXT-X-ALLOW-CACHE:NO" ||
		!strings.HasPrefix(lines[3], "#EXT-X-TARGETDURATION:") || !strings.HasPrefix(lines[4], "#EXT-X-MEDIA-SEQUENCE:") ||
		lines[5] != "" || lines[len(lines)-1] != "" {
		return bad
	}
	target, ok1 := atoi(lines[3][len("#EXT-X-TARGETDURATION:"):])
	mseq, ok2 := atoi(lines[4][len("#EXT-X-MEDIA-SEQUENCE:"):])
	if !ok1 || !ok2 {
		return bad
	}
	entries := []Val{}
	i := 6
	for i < len(lines)-1 {
		disc := false
		if lines[i] == "#EXT-X-DISCONTINUITY" {
			disc = true
			i++
		}
		if i+1 >= len(lines)-1+1 || !strings.HasPrefix(lines[i], "#EXTINF:") || !strings.HasSuffix(lines[i], ",") {
			return bad
		}
		d := lines[i][len("#EXTINF:") : len(lines[i])-1]
		dot := strings.IndexByte(d, '.')
		if dot < 0 || len(d)-dot-1 != 3 {
			return bad
		}
		whole, ok3 := atoi(d[:dot])
		frac, ok4 := atoi(d[dot+1:])
		if !ok3 || !ok4 || i+1 >= len(lines) {
			return bad
		}
		uri, etok := lines[i+1], ""
		if tok != "" && strings.HasSuffix(uri, "?token="+tok) {
			uri, etok = uri[:len(uri)-len("?token="+tok)], tok
		}
		entries = append(entries, L(Bo(disc), I(whole*1000+frac), S(uri), S(etok)))
		i += 2
	}
	return L(I(target), I(mseq), L(entries...))
}

type keptReader struct {
	r    io.Reader
	size int
}

func runCase(c Val) Val {
	cfg := c.At(0)
	dtok := c.At(1).Str()
	frag := int(cfg.At(0).Int())
	rate := int(cfg.At(1).Int())
	mem := cfg.At(2).Bool()
	path := cfg.At(4).Str()
	dir := ""
	if !mem {
		d, err := ioutil.TempDir("", "c10hls")
		if err != nil {
			panic(err)
		}
		dir = d
		defer os.RemoveAll(dir)
	}
	pl := hls.NewPlaylist()
	sg, err := hls.NewSegmentGenerator(pl, path, frag, dir, rate, nil)
	if err != nil {
		panic(err)
	}
	// the metadata exists before its parameter sets are known (an SDP without sprop-parameter-sets: the RTP
	// depacketizer fills VideoMeta.Sps/Pps from the stream later): the packetizer is built on the empty metadata
	// and the sets are assigned afterwards, here and by the history's ( 6 sps pps ) operations
	vm := &codec.VideoMeta{Codec: "H264"}
	vp := mpegts.NewH264Packetizer(vm, sg)
	ap := mpegts.NewAacPacketizer(&codec.AudioMeta{Codec: "AAC", SampleRate: 44100, Channels: 2, Sps: aac.Encode2BytesASC(2, 4, 2)}, sg)
	vm.Sps, vm.Pps = cfg.At(5).Bytes(), cfg.At(6).Bytes()

	var readers []keptReader
	var pls [][]byte
	defer func() {
		for _, k := range readers {
			closeReader(k.r)
		}
	}()
	prev := map[int]bool{}
	maxSeen := 0
	outs := []Val{}
	for _, op := range c.At(2).List() {
		res := L(I(0))
		switch op.At(0).Int() {
		case 0:
			f := &codec.Frame{Pts: ns(op.At(2).Int()), Dts: ns(op.At(3).Int()), Payload: op.At(4).Bytes()}
			if op.At(1).Int() == 0 {
				f.MediaType = codec.MediaTypeAudio
				ap.Packetize(f)
			} else {
				f.MediaType = codec.MediaTypeVideo
				vp.Packetize(f)
			}
		case 1:
			r, size, err := pl.Segment(int(op.At(1).Int()))
			if err == nil {
				readers = append(readers, keptReader{r, size})
			}
			res = L(I(1), Bo(err == nil))
		case 2:
			h := op.At(1).Int()
			if h >= 0 && h < int64(len(readers)) {
				res = L(I(2), L(segObs(readAll(readers[h].r), readers[h].size)))
			} else {
				res = L(I(2), L())
			}
		case 3:
			b, err := pl.M3u8(op.At(1).Str())
			if err == nil {
				pls = append(pls, b) // the returned slice itself, not a copy
			}
			res = L(I(3), Bo(err == nil))
		case 4:
			h := op.At(1).Int()
			if h >= 0 && h < int64(len(pls)) {
				res = L(I(4), L(B(append([]byte(nil), pls[h]...))))
			} else {
				res = L(I(4), L())
			}
		case 6:
			vm.Sps, vm.Pps = op.At(1).Bytes(), op.At(2).Bytes()
		case 7:
			// a new generation of the stream: the running generator and playlist are abandoned as they are (no
			// Close; their files stay), leftover files appear in the directory, then a new playlist and
			// generator are created for the same path over the same directory
			for _, k := range readers {
				closeReader(k.r)
			}
			readers = nil
			if !mem {
				for _, lf := range op.At(1).List() {
					name := fmt.Sprintf("%d_%d.ts", murmur.OfString(path), lf.At(0).Int())
					if err := ioutil.WriteFile(dir+string(os.PathSeparator)+name, lf.At(1).Bytes(), 0644); err != nil {
						panic(err)
					}
				}
			}
			pl = hls.NewPlaylist()
			sg, err = hls.NewSegmentGenerator(pl, path, frag, dir, rate, nil)
			if err != nil {
				panic(err)
			}
			vp = mpegts.NewH264Packetizer(vm, sg)
			ap = mpegts.NewAacPacketizer(&codec.AudioMeta{Codec: "AAC", SampleRate: 44100, Channels: 2, Sps: aac.Encode2BytesASC(2, 4, 2)}, sg)
			prev = map[int]bool{}
		default:
			sg.Close()
			pl.Close()
		}
		// the standard observation
		plv := L()
		if b, err := pl.M3u8(dtok); err == nil {
			text := string(b)
			plv = L(parseM3u8(text, dtok), S(text))
		}
		live := []Val{}
		news := []Val{}
		now := map[int]bool{}
		for seq := 0; seq <= maxSeen+3; seq++ {
			r, size, err := pl.Segment(seq)
			if err != nil {
				continue
			}
			live = append(live, I(int64(seq)))
			now[seq] = true
			if !prev[seq] {
				news = append(news, L(I(int64(seq)), segObs(readAll(r), size)))
			}
			closeReader(r)
		}
		for seq := range now {
			if seq > maxSeen {
				maxSeen = seq
			}
		}
		prev = now
		files := []Val{}
		if !mem {
			ents, _ := ioutil.ReadDir(dir)
			var seqs []int
			for _, e := range ents {
				name := e.Name()
				n := int64(-1)
				if k := strings.IndexByte(name, '_'); k >= 0 && strings.HasSuffix(name, ".ts") {
					if v, ok := atoi(name[k+1 : len(name)-3]); ok {
						n = v
					}
				}
				seqs = append(seqs, int(n))
			}
			sort.Ints(seqs)
			for _, n := range seqs {
				files = append(files, I(int64(n)))
			}
		}
		outs = append(outs, L(plv, L(live...), L(files...), L(news...), res))
	}
	return L(outs...)
}

func curGoid() int64 {
	var buf [64]byte
	n := runtime.Stack(buf[:], false)
	f := strings.Fields(string(buf[:n]))
	id, _ := strconv.ParseInt(f[1], 10, 64)
	return id
}

// goState returns the scheduler state of a goroutine ("sync.RWMutex.Lock", "runnable", ...), "" if it is gone.
func goState(id int64) string {
	buf := make([]byte, 1<<18)
	for {
		n := runtime.Stack(buf, true)
		if n < len(buf) {
			buf = buf[:n]
			break
		}
		buf = make([]byte, 2*len(buf))
	}
	head := []byte("goroutine " + strconv.FormatInt(id, 10) + " ")
	for _, blk := range bytes.Split(buf, []byte("\n\n")) {
		if bytes.HasPrefix(blk, head) {
			line := blk
			if i := bytes.IndexByte(blk, '\n'); i >= 0 {
				line = blk[:i]
			}
			lb, rb := bytes.IndexByte(line, '['), bytes.LastIndexByte(line, ']')
			if lb >= 0 && rb > lb {
				return string(line[lb+1 : rb])
			}
		}
	}
	return ""
}

// stableStatus: the controller's Settle can return while a goroutine is only momentarily off the CPU (disk I/O,
// a loaded machine).  A thread counts as blocked only when it really waits for the playlist RW lock; otherwise
// wait until it is parked at a point or done.
func stableStatus(ctl *sched.Ctl, name string, id *int64, mu *sync.Mutex) string {
	for i := 0; i < 200000; i++ {
		st := ctl.Status(name)
		if st != "blocked" {
			return st
		}
		mu.Lock()
		g := *id
		mu.Unlock()
		if g != 0 && strings.HasPrefix(goState(g), "sync.RWMutex") {
			// confirm: still so a moment later
			time.Sleep(100 * time.Microsecond)
			if ctl.Status(name) == "blocked" && strings.HasPrefix(goState(g), "sync.RWMutex") {
				return "blocked"
			}
			continue
		}
		time.Sleep(50 * time.Microsecond)
	}
	return "blocked"
}

// runLts replays a schedule of the fetch/rollover transition system (coq/Model/C10HlsLts.v) on the real
// Playlist/SegmentGenerator.  The writer goroutine parks before every frame and at hls.segment.listed (end of
// segmentClose, the segment has just been listed); a fetch goroutine parks at the
// schedule point hls.segment.get (segment found, in the code as it is still holding the playlist read lock).
// case = ( cfg frames sched ); observation = ( results blocked ).
func runLts(c Val) Val {
	cfg := c.At(0)
	frag := int(cfg.At(0).Int())
	rate := int(cfg.At(1).Int())
	mem := cfg.At(2).Bool()
	path := cfg.At(4).Str()
	dir := ""
	if !mem {
		d, err := ioutil.TempDir("", "c10lts")
		if err != nil {
			panic(err)
		}
		dir = d
		defer os.RemoveAll(dir)
	}
	pl := hls.NewPlaylist()
	sg, err := hls.NewSegmentGenerator(pl, path, frag, dir, rate, nil)
	if err != nil {
		panic(err)
	}
	// the metadata exists before its parameter sets are known (an SDP without sprop-parameter-sets: the RTP
	// depacketizer fills VideoMeta.Sps/Pps from the stream later): the packetizer is built on the empty metadata
	// and the sets are assigned afterwards, here and by the history's ( 6 sps pps ) operations
	vm := &codec.VideoMeta{Codec: "H264"}
	vp := mpegts.NewH264Packetizer(vm, sg)
	ap := mpegts.NewAacPacketizer(&codec.AudioMeta{Codec: "AAC", SampleRate: 44100, Channels: 2, Sps: aac.Encode2BytesASC(2, 4, 2)}, sg)
	vm.Sps, vm.Pps = cfg.At(5).Bytes(), cfg.At(6).Bytes()

	ctl := sched.New()
	ctl.Allow = func(thread, point string) bool {
		if point == "h.start" {
			return true
		}
		if thread == "writer" {
			return point == "w.frame" || point == "hls.segment.listed"
		}
		return point == "hls.segment.get"
	}
	var mu sync.Mutex
	stop := false
	var wg sync.WaitGroup
	frames := c.At(1).List()
	var writerID int64
	wstatus := func() string { return stableStatus(ctl, "writer", &writerID, &mu) }
	wg.Add(1)
	ctl.Go("writer", func() {
		defer wg.Done()
		mu.Lock()
		writerID = curGoid()
		mu.Unlock()
		for _, fv := range frames {
			ctl.Here("w.frame")
			mu.Lock()
			st := stop
			mu.Unlock()
			if st {
				return
			}
			f := &codec.Frame{Pts: ns(fv.At(1).Int()), Dts: ns(fv.At(2).Int()), Payload: fv.At(3).Bytes()}
			if fv.At(0).Int() == 0 {
				f.MediaType = codec.MediaTypeAudio
				ap.Packetize(f)
			} else {
				f.MediaType = codec.MediaTypeVideo
				vp.Packetize(f)
			}
		}
	})
	ctl.Step("writer") // from h.start to the first w.frame
	wstatus()

	type fetch struct {
		name   string
		goid   int64
		parked bool // it reached hls.segment.get: the lookup found the segment
		res    Val  // set by the goroutine when Segment returned
		done   bool
	}
	var order []*fetch
	byID := map[int64]*fetch{}
	blocked := []Val{}
	for _, lab := range c.At(2).List() {
		switch lab.At(0).Int() {
		case 0:
			// from before a frame up to the listing of the segment it closes (or to the next frame), or from the
			// listing through the rest of the frame
			if st := wstatus(); st == "w.frame" || st == "hls.segment.listed" {
				ctl.Step("writer")
				wstatus()
			}
		case 1:
			id, seq := lab.At(1).Int(), int(lab.At(2).Int())
			if wstatus() == "blocked" || byID[id] != nil {
				break
			}
			ft := &fetch{name: "f" + strconv.FormatInt(id, 10)}
			byID[id] = ft
			order = append(order, ft)
			wg.Add(1)
			ctl.Go(ft.name, func() {
				defer wg.Done()
				mu.Lock()
				ft.goid = curGoid()
				mu.Unlock()
				var out Val
				func() {
					defer func() {
						if r := recover(); r != nil {
							out = L(I(2))
						}
					}()
					r, size, err := pl.Segment(seq)
					if err != nil {
						out = L(I(0)) // refined below: an error after the segment had been found is ( 3 )
						return
					}
					out = L(I(1), segObs(readAll(r), size))
					closeReader(r)
				}()
				mu.Lock()
				ft.res, ft.done = out, true
				mu.Unlock()
			})
			ctl.Step(ft.name)
			if stableStatus(ctl, ft.name, &ft.goid, &mu) == "hls.segment.get" {
				ft.parked = true
			}
		default:
			if ft := byID[lab.At(1).Int()]; ft != nil && stableStatus(ctl, ft.name, &ft.goid, &mu) == "hls.segment.get" {
				ctl.Step(ft.name)
				stableStatus(ctl, ft.name, &ft.goid, &mu)
				wstatus()
			}
		}
		blocked = append(blocked, Bo(wstatus() == "blocked"))
	}
	results := []Val{}
	for _, ft := range order {
		mu.Lock()
		done, res := ft.done, ft.res
		mu.Unlock()
		switch {
		case !done:
			results = append(results, L())
		case ft.parked && res.At(0).Int() == 0:
			results = append(results, L(L(I(3))))
		default:
			results = append(results, L(res))
		}
	}
	mu.Lock()
	stop = true
	mu.Unlock()
	ctl.Finish()
	wg.Wait()
	sg.Close()
	pl.Close()
	return L(L(results...), L(blocked...))
}

func init() {
	commands["C10"] = runCase
	commands["C10_lts"] = runLts
	// ( x n ) -> what Go's float64 arithmetic and fmt give for the expressions of the segmenter and the playlist
	commands["C10_float"] = func(c Val) Val {
		x, n := c.At(0).Int(), int(c.At(1).Int())
		d := float64(x) / 90000.0
		return L(S(fmt.Sprintf("%.3f", d)), Bo(d >= float64(n)), Bo(d*1000 < 100), I(int64(int32(d+1))))
	}
}
