// Disk mode with several streams in one storage directory: the segment files are <murmur32(path)>_<n>.ts, so the
// hash of the stream path is what keeps the streams' segments apart (Model/C10Names.v).
package main

import (
	"bytes"
	"io/ioutil"
	"os"

	. "vh/lib"

	"github.com/cnotch/ipchub/av/codec"
	"github.com/cnotch/ipchub/av/format/hls"
	"github.com/cnotch/ipchub/av/format/mpegts"
	"github.com/cnotch/ipchub/utils/murmur"
)

type namedStream struct {
	pl  *hls.Playlist
	sg  *hls.SegmentGenerator
	vp  mpegts.Packetizer
	tag byte
}

func newNamedStream(path, dir string, tag byte) *namedStream {
	pl := hls.NewPlaylist()
	sg, err := hls.NewSegmentGenerator(pl, path, 1, dir, 44100, nil)
	if err != nil {
		panic(err)
	}
	vm := &codec.VideoMeta{Codec: "H264", Sps: []byte{0x67, 0x42, 0x00, 0x1e}, Pps: []byte{0x68, 0xce, 0x38, 0x80}}
	return &namedStream{pl: pl, sg: sg, vp: mpegts.NewH264Packetizer(vm, sg), tag: tag}
}

func (s *namedStream) video(key bool, pts int64, n byte) {
	first := byte(0x41)
	if key {
		first = 0x65
	}
	s.vp.Packetize(&codec.Frame{MediaType: codec.MediaTypeVideo, Pts: ns(pts), Dts: ns(pts),
		Payload: []byte{first, s.tag, s.tag, s.tag, s.tag, n}})
}

// every segment the stream's playlist resolves holds video of this stream only, and there are at least two
func (s *namedStream) readsOwn(other byte, upto int) bool {
	mine := bytes.Repeat([]byte{s.tag}, 4)
	theirs := bytes.Repeat([]byte{other}, 4)
	segs := 0
	for seq := 0; seq <= upto+3; seq++ {
		r, size, err := s.pl.Segment(seq)
		if err != nil {
			continue
		}
		data := readAll(r)
		closeReader(r)
		frames, ok := demux(data)
		if !ok || size != len(data) || len(frames) == 0 {
			return false
		}
		for _, f := range frames {
			if !bytes.Contains(f.es, mine) || bytes.Contains(f.es, theirs) {
				return false
			}
		}
		segs++
	}
	return segs >= 2
}

// ( pathA pathB k ) -> ( hashA hashB a_reads_own b_reads_own )
func runTwo(c Val) Val {
	pa, pb, k := c.At(0).Str(), c.At(1).Str(), int(c.At(2).Int())
	dir, err := ioutil.TempDir("", "c10two")
	if err != nil {
		panic(err)
	}
	defer os.RemoveAll(dir)
	a := newNamedStream(pa, dir, 0xA1)
	b := newNamedStream(pb, dir, 0xB2)
	const ticks = 90000
	t := int64(1000)
	for i := 0; i <= k; i++ { // K, P, P one fragment later; the next K closes the segment
		for _, s := range []*namedStream{a, b} {
			s.video(true, t, byte(i))
			if i < k {
				s.video(false, t+ticks/2, byte(i))
				s.video(false, t+ticks, byte(i))
			}
		}
		t += ticks + 3600
	}
	oa, ob := a.readsOwn(b.tag, k), b.readsOwn(a.tag, k)
	a.sg.Close()
	a.pl.Close()
	b.sg.Close()
	b.pl.Close()
	return L(I(int64(murmur.OfString(pa))), I(int64(murmur.OfString(pb))), Bo(oa), Bo(ob))
}

func init() {
	commands["C10_murmur"] = func(c Val) Val { return I(int64(murmur.OfString(c.Str()))) }
	commands["C10_two"] = runTwo
}
