package main

import (
	. "vh/lib"
	"vh/lts"
)

func main() { Main(map[string]func(Val) Val{"C04_lts": lts.Run}) }
