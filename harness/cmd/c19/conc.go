package main

// Several connections classified at the same time.
//
// C19_conc: gated scripted conns, one goroutine per connection running
// Listener.serve (hook VerifServe) on a listener shared by all of them; the
// harness releases one fragment of one connection at a time and waits until
// that connection has consumed it and blocks for more (or its serve returned),
// so the interleaving of the sniffing reads is exactly the schedule — no sleeps.
//
// C19_cloop: the same with real TCP connections through listener.New/Serve.

import (
	"bytes"
	"io"
	"net"
	"sync"
	"time"

	. "vh/lib"

	"github.com/cnotch/ipchub/network/socket/listener"
)

type gconn struct {
	mu       sync.Mutex
	cond     *sync.Cond
	frags    [][]byte
	released int
	next     int
	cur      []byte
	closed   bool
	events   chan int // 1 = blocked waiting for a fragment
}

func newGconn(frags [][]byte) *gconn {
	g := &gconn{frags: frags, events: make(chan int, 1024)}
	g.cond = sync.NewCond(&g.mu)
	return g
}

func (g *gconn) Read(p []byte) (int, error) {
	if len(p) == 0 {
		return 0, nil
	}
	g.mu.Lock()
	defer g.mu.Unlock()
	for {
		if g.next < g.released {
			g.cur = g.frags[g.next]
			g.next++
			// one script item: returned whole if it fits, else its first len(p) bytes
			if len(g.cur) <= len(p) {
				n := copy(p, g.cur)
				g.cur = nil
				return n, nil
			}
			n := copy(p, g.cur[:len(p)])
			g.cur = g.cur[n:]
			g.frags[g.next-1] = g.cur
			g.next--
			return n, nil
		}
		if g.released == len(g.frags) {
			return 0, io.EOF
		}
		g.events <- 1
		g.cond.Wait()
	}
}
func (g *gconn) release() {
	g.mu.Lock()
	g.released++
	g.mu.Unlock()
	g.cond.Broadcast()
}
func (g *gconn) remaining() int64 {
	g.mu.Lock()
	defer g.mu.Unlock()
	n := 0
	for i := g.next; i < len(g.frags); i++ {
		n += len(g.frags[i])
	}
	return int64(n)
}
func (g *gconn) Write(p []byte) (int, error)        { return len(p), nil }
func (g *gconn) Close() error                       { g.mu.Lock(); g.closed = true; g.mu.Unlock(); return nil }
func (g *gconn) LocalAddr() net.Addr                { return addr{} }
func (g *gconn) RemoteAddr() net.Addr               { return addr{} }
func (g *gconn) SetDeadline(t time.Time) error      { return nil }
func (g *gconn) SetReadDeadline(t time.Time) error  { return nil }
func (g *gconn) SetWriteDeadline(t time.Time) error { return nil }

func init() {
	// case = (tables ((script svc) ...) schedule); observation = ((decision closed handed rem0 reads) ...)
	commands["C19_conc"] = func(c Val) Val {
		m := newMux(c.At(0))
		defer m.l.Close()
		conns := c.At(1).List()
		gs := make([]*gconn, len(conns))
		done := make([]chan struct{}, len(conns))
		finished := make([]bool, len(conns))
		for i, cn := range conns {
			frags := [][]byte{}
			for _, it := range cn.At(0).List() {
				frags = append(frags, append([]byte{}, it.At(0).Bytes()...))
			}
			gs[i] = newGconn(frags)
			done[i] = make(chan struct{})
		}
		wait := func(i int) bool { // until conn i blocks for more or its serve returns
			if finished[i] {
				return true
			}
			select {
			case <-gs[i].events:
				return true
			case <-done[i]:
				finished[i] = true
				return true
			case <-time.After(5 * time.Second):
				return false
			}
		}
		for i := range conns {
			go func(i int) { m.l.VerifServe(gs[i]); close(done[i]) }(i)
		}
		// every connection is now inside its first matcher, blocked in the sniff phase
		for i := range conns {
			if !wait(i) {
				return L(S("!hang"), S("start"))
			}
		}
		for _, s := range c.At(2).List() {
			i := int(s.Int())
			if i < 0 || i >= len(gs) {
				continue
			}
			gs[i].release()
			if !wait(i) {
				return L(S("!hang"), S("schedule"))
			}
		}
		for i := range conns { // whatever the schedule left unreleased
			for gs[i].released < len(gs[i].frags) {
				gs[i].release()
			}
			if !finished[i] {
				select {
				case <-done[i]:
					finished[i] = true
				case <-time.After(5 * time.Second):
					return L(S("!hang"), S("finish"))
				}
			}
		}
		// which service queue holds which connection
		type where struct {
			svc    int64
			handed int64
			conn   net.Conn
		}
		ws := make([]where, len(conns))
		for i := range ws {
			ws[i].svc = -1
		}
		for si, sub := range m.subs {
			for {
				cn, ok := listener.VerifTake(sub)
				if !ok {
					break
				}
				lc, _ := cn.(*listener.Conn)
				for i := range gs {
					if lc != nil && lc.Conn == net.Conn(gs[i]) {
						ws[i].svc = int64(si)
						ws[i].handed++
						ws[i].conn = cn
					}
				}
			}
		}
		out := []Val{}
		for i, cn := range conns {
			rem0 := gs[i].remaining()
			reads := []Val{}
			if ws[i].conn != nil {
				for _, sz := range cn.At(1).List() {
					p := make([]byte, sz.Int())
					n, err := ws[i].conn.Read(p)
					reads = append(reads, L(B(append([]byte{}, p[:n]...)), I(errCode(err)), I(gs[i].remaining())))
				}
			}
			out = append(out, L(I(ws[i].svc), Bo(gs[i].closed), I(ws[i].handed), I(rem0), L(reads...)))
		}
		return L(out...)
	}

	// case = (((payload split) ...) schedule); observation = ((decision handed nrecv equal) ...)
	commands["C19_cloop"] = func(c Val) Val {
		m := getRealMux(3000)
		specs := c.At(0).List()
		n := len(specs)
		type result struct {
			svc  int64
			data []byte
		}
		cls := make([]*net.TCPConn, n)
		visits := make([]int, n)
		res := make([]chan result, n)
		closedBy := make([]chan struct{}, n)
		byAddr := map[string]int{}
		for i := range specs {
			cl, err := net.Dial("tcp", m.addr)
			if err != nil {
				panic(err)
			}
			cls[i] = cl.(*net.TCPConn)
			defer cl.Close()
			byAddr[cl.LocalAddr().String()] = i
			res[i] = make(chan result, 4)
			closedBy[i] = make(chan struct{})
			go func(i int) {
				b := make([]byte, 64)
				_ = cls[i].SetReadDeadline(time.Now().Add(20 * time.Second))
				for {
					if _, err := cls[i].Read(b); err != nil {
						close(closedBy[i])
						return
					}
				}
			}(i)
		}
		stop := make(chan struct{})
		defer close(stop)
		go func() { // the stub services: read each accepted connection to its end
			for {
				select {
				case a := <-m.acc:
					go func(a accepted) {
						guard := time.AfterFunc(10*time.Second, func() { _ = a.conn.Close() })
						defer guard.Stop()
						data, _ := io.ReadAll(a.conn)
						if i, ok := byAddr[a.conn.RemoteAddr().String()]; ok {
							res[i] <- result{int64(a.svc), data}
						}
						_ = a.conn.Close()
					}(a)
				case <-stop:
					return
				}
			}
		}()
		outs := make([]Val, n)
		settle := func(i int) {
			payload := specs[i].At(0).Bytes()
			var r result
			select {
			case r = <-res[i]:
			case <-closedBy[i]:
				select { // closed by the stub service after it had read everything?
				case r = <-res[i]:
				case <-time.After(20 * time.Millisecond):
					outs[i] = L(I(-1), I(0), I(0), Bo(true))
					return
				}
			case <-time.After(6 * time.Second):
				outs[i] = L(I(-9), I(0), I(0), Bo(false))
				return
			}
			{
				handed := int64(1)
				select {
				case <-res[i]:
					handed++
				case <-time.After(3 * time.Millisecond):
				}
				eq := len(r.data) <= len(payload) && bytes.Equal(r.data, payload[:len(r.data)])
				outs[i] = L(I(r.svc), I(handed), I(int64(len(r.data))), Bo(eq))
			}
		}
		for _, s := range c.At(1).List() {
			i := int(s.Int())
			if i < 0 || i >= n || visits[i] >= 2 {
				continue
			}
			payload := specs[i].At(0).Bytes()
			k := int(specs[i].At(1).Int())
			if k > len(payload) {
				k = len(payload)
			}
			if visits[i] == 0 && k > 0 && k < len(payload) {
				_, _ = cls[i].Write(payload[:k])
				time.Sleep(30 * time.Millisecond) // let the listener take the fragment into its matcher
				visits[i] = 1
				continue
			}
			if visits[i] == 0 {
				k = 0
			}
			_, _ = cls[i].Write(payload[k:])
			_ = cls[i].CloseWrite()
			visits[i] = 2
			settle(i) // delivered (or closed) before anybody else continues
		}
		for i := range specs {
			if visits[i] < 2 {
				payload := specs[i].At(0).Bytes()
				k := 0
				if visits[i] == 1 {
					k = int(specs[i].At(1).Int())
				}
				_, _ = cls[i].Write(payload[k:])
				_ = cls[i].CloseWrite()
				settle(i)
			}
		}
		return L(outs...)
	}
}
