// C19 harness: patricia tree, sniffing Conn and Listener.serve of
// network/socket/listener on a scripted net.Conn, and real loopback connections
// through listener.New / Serve with the production matchers.
package main

import (
	"bytes"
	"fmt"
	"io"
	"net"
	"strings"
	"sync"
	"time"

	. "vh/lib"

	"net/http"

	"github.com/cnotch/ipchub/network/socket/listener"
	"github.com/cnotch/ipchub/service"
	"github.com/cnotch/ipchub/service/rtsp"
)

var commands = map[string]func(Val) Val{}

func main() { Main(commands) }

// ---------------------------------------------------------------- scripted conn

type verifErr struct{ code int }

func (e verifErr) Error() string   { return fmt.Sprintf("scripted error %d", e.code) }
func (e verifErr) Timeout() bool   { return e.code == 2 }
func (e verifErr) Temporary() bool { return e.code == 2 }

func mkErr(code int) error {
	switch code {
	case 0:
		return nil
	case 1:
		return io.EOF
	default:
		return verifErr{code}
	}
}

func errCode(err error) int64 {
	if err == nil {
		return 0
	}
	if err == io.EOF {
		return 1
	}
	if ve, ok := err.(verifErr); ok {
		return int64(ve.code)
	}
	return 99
}

type item struct {
	data []byte
	err  int
}

// sconn is the raw connection of the model: a script of read results.
type sconn struct {
	items  []item
	closed bool
}

type addr struct{}

func (addr) Network() string { return "script" }
func (addr) String() string  { return "script" }

func (c *sconn) Read(p []byte) (int, error) {
	if len(p) == 0 {
		return 0, nil
	}
	if len(c.items) == 0 {
		return 0, io.EOF
	}
	it := &c.items[0]
	if len(it.data) <= len(p) {
		n := copy(p, it.data)
		err := mkErr(it.err)
		c.items = c.items[1:]
		return n, err
	}
	n := copy(p, it.data[:len(p)])
	it.data = it.data[n:]
	return n, nil
}
func (c *sconn) remaining() int64 {
	n := 0
	for _, it := range c.items {
		n += len(it.data)
	}
	return int64(n)
}
func (c *sconn) Write(p []byte) (int, error)        { return len(p), nil }
func (c *sconn) Close() error                       { c.closed = true; return nil }
func (c *sconn) LocalAddr() net.Addr                { return addr{} }
func (c *sconn) RemoteAddr() net.Addr               { return addr{} }
func (c *sconn) SetDeadline(t time.Time) error      { return nil }
func (c *sconn) SetReadDeadline(t time.Time) error  { return nil }
func (c *sconn) SetWriteDeadline(t time.Time) error { return nil }

func decScript(v Val) *sconn {
	c := &sconn{}
	for _, it := range v.List() {
		c.items = append(c.items, item{data: append([]byte{}, it.At(0).Bytes()...), err: int(it.At(1).Int())})
	}
	return c
}

func serviceReads(c net.Conn, sc *sconn, sizes []Val) Val {
	out := []Val{}
	for _, sz := range sizes {
		p := make([]byte, sz.Int())
		n, err := c.Read(p)
		out = append(out, L(B(append([]byte{}, p[:n]...)), I(errCode(err)), I(sc.remaining())))
	}
	return L(out...)
}

// ---------------------------------------------------------------- listeners

type mux struct {
	l    *listener.Listener
	subs []net.Listener
}

func newMux(tables Val) *mux {
	l, err := listener.New("127.0.0.1:0", nil)
	if err != nil {
		panic(err)
	}
	m := &mux{l: l}
	if tables.K == 'i' {
		// service.listen: ServeAsync(rtsp.MatchRTSP(), …); ServeAsync(listener.MatchHTTP(), …)
		m.subs = append(m.subs, l.Match(rtsp.MatchRTSP()))
		m.subs = append(m.subs, l.Match(listener.MatchHTTP()))
	} else {
		for _, t := range tables.List() {
			strs := []string{}
			for _, s := range t.List() {
				strs = append(strs, s.Str())
			}
			m.subs = append(m.subs, l.Match(listener.MatchPrefix(strs...)))
		}
	}
	return m
}

var prodMux *mux

func dumpNode(n *listener.VerifNode) Val {
	kids := []Val{}
	for i, k := range n.Keys {
		kids = append(kids, L(I(int64(k)), dumpNode(n.Next[i])))
	}
	p := n.Prefix
	if p == nil {
		p = []byte{}
	}
	return L(B(p), Bo(n.Terminal), L(kids...))
}

func init() {
	// case = (strs inputs) ; observation = (dump maxDepth ((prefix exact) ...))
	commands["C19_ptree"] = func(c Val) Val {
		bs := [][]byte{}
		for _, s := range c.At(0).List() {
			bs = append(bs, s.Bytes())
		}
		t := listener.VerifNewTree(bs...)
		res := []Val{}
		for _, in := range c.At(1).List() {
			b := in.Bytes()
			p := t.Match(b, true)
			// the installed Matcher reads through io.ReadFull; must agree on input no longer than maxDepth
			if len(b) <= t.MaxDepth() {
				if q := t.MatchPrefixReader(bytes.NewReader(b)); q != p {
					panic("matchPrefix(reader) disagrees with match(bytes)")
				}
			}
			// repeat: Go's map iteration / hashing must not matter
			for i := 0; i < 2; i++ {
				if t.Match(b, true) != p {
					panic("unstable match")
				}
			}
			res = append(res, L(Bo(p), Bo(t.Match(b, false))))
		}
		return L(dumpNode(t.Dump()), I(int64(t.MaxDepth())), L(res...))
	}

	// case = (script sessions svc); observation = ((((d e)...)...) rem0 ((d e rem)...))
	commands["C19_sniff"] = func(c Val) Val {
		sc := decScript(c.At(0))
		vc := listener.VerifNewConn(sc)
		ms := []Val{}
		for _, sess := range c.At(1).List() {
			r := vc.StartSniffing()
			rs := []Val{}
			for _, sz := range sess.List() {
				p := make([]byte, sz.Int())
				n, err := r.Read(p)
				rs = append(rs, L(B(append([]byte{}, p[:n]...)), I(errCode(err))))
			}
			ms = append(ms, L(rs...))
		}
		vc.DoneSniffing()
		rem0 := sc.remaining()
		return L(L(ms...), I(rem0), serviceReads(vc.Conn(), sc, c.At(2).List()))
	}

	// case = (tables script svc); observation = (decision closed handed rem0 ((d e rem)...))
	commands["C19_serve"] = func(c Val) Val {
		var m *mux
		if c.At(0).K == 'i' {
			if prodMux == nil {
				prodMux = newMux(c.At(0))
			}
			m = prodMux
		} else {
			m = newMux(c.At(0))
			defer m.l.Close()
		}
		sc := decScript(c.At(1))
		m.l.VerifServe(sc)
		dec := int64(-1)
		handed := int64(0)
		var got net.Conn
		for i, sub := range m.subs {
			for {
				cn, ok := listener.VerifTake(sub)
				if !ok {
					break
				}
				handed++
				dec = int64(i)
				got = cn
			}
		}
		rem0 := sc.remaining()
		reads := L()
		if got != nil {
			reads = serviceReads(got, sc, c.At(2).List())
		}
		return L(I(dec), Bo(sc.closed), I(handed), I(rem0), reads)
	}

	commands["C19_loop"] = loopCase
}

// ---------------------------------------------------------------- real loopback

type accepted struct {
	svc  int
	conn net.Conn
}

type httpSeen struct {
	method, uri string
	body        []byte
}

type realMux struct {
	addr string
	acc  chan accepted
	reqs chan httpSeen
}

// prodMux runs service.listen itself (hook service.VerifListen): the real
// registration of the matchers, a tcp.Server for RTSP and an http.Server for HTTP.
func newProdRealMux() *realMux {
	probe, err := net.Listen("tcp", "127.0.0.1:0")
	if err != nil {
		panic(err)
	}
	addr := probe.Addr().(*net.TCPAddr)
	_ = probe.Close()
	m := &realMux{addr: addr.String(), acc: make(chan accepted, 16), reqs: make(chan httpSeen, 16)}
	service.VerifListen(addr,
		func(c net.Conn) { m.acc <- accepted{0, c} },
		http.HandlerFunc(func(w http.ResponseWriter, r *http.Request) {
			body, _ := io.ReadAll(r.Body)
			m.reqs <- httpSeen{r.Method, r.RequestURI, body}
			w.WriteHeader(204)
		}))
	for i := 0; i < 200; i++ { // listen() starts Serve asynchronously
		if c, err := net.Dial("tcp", m.addr); err == nil {
			_ = c.Close()
			break
		}
		time.Sleep(5 * time.Millisecond)
	}
	return m
}

var realMuxes = map[int64]*realMux{}
var realMu sync.Mutex

func getRealMux(timeoutMs int64) *realMux {
	realMu.Lock()
	defer realMu.Unlock()
	if m, ok := realMuxes[timeoutMs]; ok {
		return m
	}
	if timeoutMs < 0 {
		m := newProdRealMux()
		realMuxes[timeoutMs] = m
		return m
	}
	l, err := listener.New("127.0.0.1:0", nil)
	if err != nil {
		panic(err)
	}
	if timeoutMs > 0 {
		l.SetReadTimeout(time.Duration(timeoutMs) * time.Millisecond)
	}
	l.HandleError(func(error) bool { return true })
	m := &realMux{addr: l.Addr().String(), acc: make(chan accepted, 16), reqs: make(chan httpSeen)}
	stub := func(svc int) func(net.Listener) error {
		return func(sl net.Listener) error {
			for {
				c, err := sl.Accept()
				if err != nil {
					return err
				}
				m.acc <- accepted{svc, c}
			}
		}
	}
	// the registration of service.listen
	l.ServeAsync(rtsp.MatchRTSP(), stub(0))
	l.ServeAsync(listener.MatchHTTP(), stub(1))
	go l.Serve()
	realMuxes[timeoutMs] = m
	return m
}

func filler(seed int64, n int) []byte {
	out := make([]byte, n)
	x := uint64(seed)*2862933555777941757 + 3037000493
	for i := range out {
		x ^= x << 13
		x ^= x >> 7
		x ^= x << 17
		out[i] = byte(x >> 24)
	}
	return out
}

// case = (timeoutMs head fillLen fillSeed splits gapUs rsize silent)
// observation = (decision handed nrecv equal)
func loopCase(c Val) Val {
	m := getRealMux(c.At(0).Int())
	payload := append(append([]byte{}, c.At(1).Bytes()...), filler(c.At(3).Int(), int(c.At(2).Int()))...)
	gap := time.Duration(c.At(5).Int()) * time.Microsecond
	rsize := int(c.At(6).Int())
	silent := c.At(7).Bool()

	cl, err := net.Dial("tcp", m.addr)
	if err != nil {
		panic(err)
	}
	defer cl.Close()
	// the client learns of a server-side close by its read ending
	closedByServer := make(chan struct{})
	go func() {
		b := make([]byte, 64)
		_ = cl.SetReadDeadline(time.Now().Add(20 * time.Second))
		for {
			if _, err := cl.Read(b); err != nil {
				close(closedByServer)
				return
			}
		}
	}()
	go func() {
		rest := payload
		for _, s := range c.At(4).List() {
			n := int(s.Int())
			if n > len(rest) {
				n = len(rest)
			}
			if n > 0 {
				if _, err := cl.Write(rest[:n]); err != nil {
					return
				}
				rest = rest[n:]
				if gap > 0 {
					time.Sleep(gap)
				}
			}
		}
		if len(rest) > 0 {
			if _, err := cl.Write(rest); err != nil {
				return
			}
		}
		if !silent {
			_ = cl.(*net.TCPConn).CloseWrite()
		}
	}()

	dec := int64(-1)
	handed := int64(0)
	var got []byte
	select {
	case a := <-m.acc:
		dec = int64(a.svc)
		handed = 1
		// no deadline of our own on the accepted conn: whatever the listener left there must not hurt the service
		guard := time.AfterFunc(10*time.Second, func() { _ = a.conn.Close() })
		defer guard.Stop()
		buf := make([]byte, rsize)
		for len(got) < len(payload) {
			n, err := a.conn.Read(buf)
			got = append(got, buf[:n]...)
			if err != nil {
				break
			}
		}
		_ = a.conn.Close()
		<-closedByServer
	case h := <-m.reqs:
		// production http.Server: the request as parsed must be the one sent
		dec, handed = 1, 1
		line := strings.SplitN(strings.SplitN(string(payload), "\r\n", 2)[0], " ", 3)
		hdrEnd := bytes.Index(payload, []byte("\r\n\r\n"))
		if len(line) == 3 && hdrEnd >= 0 && h.method == line[0] && h.uri == line[1] && bytes.Equal(h.body, payload[hdrEnd+4:]) {
			got = payload
		}
	case <-closedByServer:
	case <-time.After(5 * time.Second):
		return L(I(-9), I(0), I(0), I(0))
	}
	// a connection must reach at most one service: nothing else may show up for it
	select {
	case a := <-m.acc:
		handed++
		_ = a.conn.Close()
	case <-time.After(3 * time.Millisecond):
	}
	eq := len(got) <= len(payload) && bytes.Equal(got, payload[:len(got)])
	return L(I(dec), I(handed), I(int64(len(got))), Bo(eq))
}
