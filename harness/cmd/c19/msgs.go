package main

// What the service makes of the connection the listener handed it: the RTSP
// side reads with the session's reader stack (buffered.NewConn with the session's
// options, then service/rtsp receive -> ReadRequest, hook rtsp.VerifReceive), the
// HTTP side with net/http's request reader.  Observed: (method, body) of every
// message and how the stream ended.

import (
	"bufio"
	"io"
	"net"
	"net/http"
	"sync"
	"time"

	. "vh/lib"

	"github.com/cnotch/ipchub/config"
	"github.com/cnotch/ipchub/network/socket/buffered"
	"github.com/cnotch/ipchub/network/socket/listener"
	"github.com/cnotch/ipchub/service/rtsp"
)

func readRTSP(c net.Conn) ([]Val, int64) {
	bc := buffered.NewConn(c,
		buffered.FlushRate(config.NetFlushRate()),
		buffered.BufferSize(config.NetBufferSize()))
	r := bc.Reader()
	msgs := []Val{}
	h := &rtsp.VerifReceiveHandler{
		OnRequest: func(req *rtsp.Request) error {
			msgs = append(msgs, L(S(req.Method), S(req.Body)))
			return nil
		},
		OnResponse: func(resp *rtsp.Response) error { msgs = append(msgs, L(S("!response"), S(resp.Body))); return nil },
		OnPack:     func(p *rtsp.RTPPack) error { msgs = append(msgs, L(S("!pack"), S(""))); return nil },
	}
	channels := []int{-1, -1, -1, -1}
	for i := 0; i < 10000; i++ {
		if err := rtsp.VerifReceive(r, channels, h); err != nil {
			if err == io.EOF {
				return msgs, 0
			}
			return msgs, 1
		}
	}
	return msgs, 2
}

func readHTTP(c net.Conn) ([]Val, int64) {
	r := bufio.NewReader(c)
	msgs := []Val{}
	for i := 0; i < 10000; i++ {
		req, err := http.ReadRequest(r)
		if err != nil {
			if err == io.EOF {
				return msgs, 0
			}
			return msgs, 1
		}
		body, err := io.ReadAll(req.Body)
		if err != nil { // the peer went away inside the body: no message
			return msgs, 1
		}
		msgs = append(msgs, L(S(req.Method), B(body)))
	}
	return msgs, 2
}

func readService(svc int64, c net.Conn) ([]Val, int64) {
	if svc == 0 {
		return readRTSP(c)
	}
	return readHTTP(c)
}

func init() {
	// case = (script); observation = (decision ((method body) ...) code)
	commands["C19_msgs"] = func(c Val) Val {
		if prodMux == nil {
			prodMux = newMux(I(0))
		}
		m := prodMux
		sc := decScript(c.At(0))
		m.l.VerifServe(sc)
		dec := int64(-1)
		var got net.Conn
		for i, sub := range m.subs {
			for {
				cn, ok := listener.VerifTake(sub)
				if !ok {
					break
				}
				dec = int64(i)
				got = cn
			}
		}
		if got == nil {
			return L(I(dec), L(), I(3))
		}
		msgs, code := readService(dec, got)
		return L(I(dec), L(msgs...), I(code))
	}

	// case = (stream cutsets pauseMs); every cutset is its own TCP connection through
	// listener.New/Serve, all of them at the same time; observation = ((decision msgs code) ...)
	commands["C19_lmsgs"] = func(c Val) Val {
		m := getRealMux(3000)
		stream := c.At(0).Bytes()
		cutsets := c.At(1).List()
		pause := time.Duration(c.At(2).Int()) * time.Millisecond
		n := len(cutsets)
		outs := make([]Val, n)
		type result struct {
			svc  int64
			msgs []Val
			code int64
		}
		res := make([]chan result, n)
		closedBy := make([]chan struct{}, n)
		cls := make([]*net.TCPConn, n)
		var mu sync.Mutex
		byAddr := map[string]int{}
		for i := 0; i < n; i++ {
			res[i] = make(chan result, 2)
			closedBy[i] = make(chan struct{})
		}
		sem := make(chan struct{}, 8) // few connections at a time, so that a pause really separates two reads
		stop := make(chan struct{})
		defer close(stop)
		go func() {
			for {
				select {
				case a := <-m.acc:
					go func(a accepted) {
						guard := time.AfterFunc(15*time.Second, func() { _ = a.conn.Close() })
						defer guard.Stop()
						msgs, code := readService(int64(a.svc), a.conn)
						mu.Lock()
						i, ok := byAddr[a.conn.RemoteAddr().String()]
						mu.Unlock()
						if ok {
							res[i] <- result{int64(a.svc), msgs, code}
						}
						_ = a.conn.Close()
					}(a)
				case <-stop:
					return
				}
			}
		}()
		var wg sync.WaitGroup
		for i := 0; i < n; i++ {
			wg.Add(1)
			go func(i int) {
				defer wg.Done()
				sem <- struct{}{}
				defer func() { <-sem }()
				cl, err := net.Dial("tcp", m.addr)
				if err != nil {
					outs[i] = L(I(-8), L(), I(8))
					return
				}
				cls[i] = cl.(*net.TCPConn)
				defer cl.Close()
				mu.Lock()
				byAddr[cl.LocalAddr().String()] = i
				mu.Unlock()
				go func() {
					b := make([]byte, 64)
					_ = cls[i].SetReadDeadline(time.Now().Add(30 * time.Second))
					for {
						if _, err := cls[i].Read(b); err != nil {
							close(closedBy[i])
							return
						}
					}
				}()
				prev := 0
				for _, cv := range cutsets[i].List() {
					cut := int(cv.Int())
					if cut <= prev || cut >= len(stream) {
						continue
					}
					if _, err := cls[i].Write(stream[prev:cut]); err != nil {
						break
					}
					prev = cut
					time.Sleep(pause) // so that the piece is a read of its own on the other side
				}
				_, _ = cls[i].Write(stream[prev:])
				_ = cls[i].CloseWrite()
				var r result
				select {
				case r = <-res[i]:
				case <-closedBy[i]:
					select {
					case r = <-res[i]:
					case <-time.After(50 * time.Millisecond):
						outs[i] = L(I(-1), L(), I(3))
						return
					}
				case <-time.After(12 * time.Second):
					outs[i] = L(I(-9), L(), I(9))
					return
				}
				outs[i] = L(I(r.svc), L(r.msgs...), I(r.code))
			}(i)
		}
		wg.Wait()
		return L(outs...)
	}
}
