package main

import (
	"bufio"
	"bytes"
	"encoding/binary"
	"io"
	"io/ioutil"
	"runtime"
	"runtime/debug"
	"time"

	. "vh/lib"

	"github.com/cnotch/ipchub/av/codec"
	"github.com/cnotch/ipchub/av/codec/aac"
	"github.com/cnotch/ipchub/av/format/hls"
	"github.com/cnotch/ipchub/av/format/mpegts"
	"github.com/cnotch/ipchub/av/format/rtp"
	"github.com/cnotch/ipchub/config"
	"github.com/cnotch/ipchub/media"
	"github.com/cnotch/xlog"
)

var commands = map[string]func(Val) Val{}

// the publisher announces no sprop-parameter-sets: SPS/PPS only travel in-band
const e2eSdp = "v=0\r\no=- 0 0 IN IP4 127.0.0.1\r\ns=No Name\r\nc=IN IP4 127.0.0.1\r\nt=0 0\r\n" +
	"m=video 0 RTP/AVP 96\r\nb=AS:2500\r\na=rtpmap:96 H264/90000\r\n" +
	"a=fmtp:96 packetization-mode=1; profile-level-id=64001F\r\na=control:streamid=0\r\n" +
	"m=audio 0 RTP/AVP 97\r\nb=AS:160\r\na=rtpmap:97 MPEG4-GENERIC/44100/2\r\n" +
	"a=fmtp:97 profile-level-id=1;mode=AAC-hbr;sizelength=13;indexlength=3;indexdeltalength=3; config=121056E500\r\n" +
	"a=control:streamid=1\r\n"

// a single-NAL-unit RTP packet, built the way the RTSP reader does (interleaved channel 0)
func rtpVideo(seq uint16, ts uint32, nal []byte) *rtp.Packet {
	var b bytes.Buffer
	hdr := []byte{0x80, 96, 0, 0, 0, 0, 0, 0, 0x11, 0x22, 0x33, 0x44}
	binary.BigEndian.PutUint16(hdr[2:], seq)
	binary.BigEndian.PutUint32(hdr[4:], ts)
	b.WriteByte(rtp.TransferPrefix)
	b.WriteByte(0)
	var l [2]byte
	binary.BigEndian.PutUint16(l[:], uint16(len(hdr)+len(nal)))
	b.Write(l[:])
	b.Write(hdr)
	b.Write(nal)
	p, err := rtp.ReadPacket(bufio.NewReader(&b), rtp.DefaultChannelConfig)
	if err != nil {
		panic(err)
	}
	return p
}

func main() { Main(commands) }

// countingWriter forwards to the real Writer and reports every call, so that the
// asynchronous Muxer can be waited for deterministically.
type countingWriter struct {
	w    *mpegts.Writer
	done chan struct{}
}

func (c *countingWriter) WriteMpegtsFrame(f *mpegts.Frame) error {
	err := c.w.WriteMpegtsFrame(f)
	c.done <- struct{}{}
	return err
}

// deferredWriter keeps every frame the way hls.SegmentGenerator keeps the first audio
// frame of a group (a struct copy, Header and Payload slices retained) and writes them
// only at the end: a packetizer that reuses a buffer for Header shows here.
type deferredWriter struct{ kept []mpegts.Frame }

func (d *deferredWriter) WriteMpegtsFrame(f *mpegts.Frame) error {
	d.kept = append(d.kept, *f)
	return nil
}

type scriptedWriter func(p []byte)

func (s scriptedWriter) Write(p []byte) (int, error) { s(p); return len(p), nil }

func readSeg(r io.Reader) []byte {
	b, _ := ioutil.ReadAll(r)
	if c, ok := r.(io.Closer); ok {
		c.Close()
	}
	return b
}

// an event (2 sps pps) stores parameter sets into the shared meta, as the RTP depacketizer does
// when it learns them in-band
func isSet(v Val) bool { return v.At(0).K == 'i' && v.At(0).Int() == 2 }
func applySet(vm *codec.VideoMeta, v Val) {
	vm.Sps = append([]byte(nil), v.At(1).Bytes()...)
	vm.Pps = append([]byte(nil), v.At(2).Bytes()...)
}

// does the frame reach the FrameWriter (in-band SPS/PPS/AUD are not forwarded)
func carried(f *codec.Frame) bool {
	if f.MediaType != codec.MediaTypeVideo {
		return true
	}
	return len(f.Payload) > 0 && !(f.Payload[0]&0x1f >= 7 && f.Payload[0]&0x1f <= 9)
}

func toFrame(v Val) *codec.Frame {
	mt := codec.MediaTypeAudio
	if v.At(0).Bool() {
		mt = codec.MediaTypeVideo
	}
	return &codec.Frame{MediaType: mt, Dts: v.At(1).Int(), Pts: v.At(2).Int(), Payload: v.At(3).Bytes()}
}

func init() {
	// list of (pid sid dts pts header payload key) -> bytes written by mpegts.Writer
	commands["C09_write"] = func(c Val) Val {
		var buf bytes.Buffer
		w, err := mpegts.NewWriter(&buf)
		if err != nil {
			return Panic("NewWriter: " + err.Error())
		}
		for _, f := range c.List() {
			fr := mpegts.VerifNewFrame(int(f.At(0).Int()), int(f.At(1).Int()), f.At(2).Int(), f.At(3).Int(),
				f.At(4).Bytes(), f.At(5).Bytes(), f.At(6).Bool())
			if err := w.WriteMpegtsFrame(fr); err != nil {
				return Panic("WriteMpegtsFrame: " + err.Error())
			}
		}
		return B(buf.Bytes())
	}

	// (mode sps pps asc frames) -> (0 bytes) | (1)
	// mode 0: the packetizers called synchronously; mode 1: mpegts.NewMuxer (queue + goroutine)
	commands["C09_mux"] = func(c Val) (out Val) {
		defer func() {
			if r := recover(); r != nil {
				out = L(I(1))
			}
		}()
		var buf bytes.Buffer
		w, err := mpegts.NewWriter(&buf)
		if err != nil {
			return Panic("NewWriter: " + err.Error())
		}
		vm := &codec.VideoMeta{Codec: "H264", Sps: c.At(1).Bytes(), Pps: c.At(2).Bytes()}
		am := &codec.AudioMeta{Codec: "AAC", Sps: c.At(3).Bytes()}
		frames := c.At(4).List()
		if c.At(0).Int() == 0 || c.At(0).Int() == 2 {
			var fw mpegts.FrameWriter = w
			dw := &deferredWriter{}
			if c.At(0).Int() == 2 {
				fw = dw
			}
			vp := mpegts.NewH264Packetizer(vm, fw)
			ap := mpegts.NewAacPacketizer(am, fw)
			for _, f := range frames {
				if isSet(f) {
					applySet(vm, f)
					continue
				}
				fr := toFrame(f)
				if fr.MediaType == codec.MediaTypeVideo {
					if err := vp.Packetize(fr); err != nil {
						return Panic("video: " + err.Error())
					}
				} else {
					if err := ap.Packetize(fr); err != nil {
						return Panic("audio: " + err.Error())
					}
				}
			}
			for i := range dw.kept {
				if err := w.WriteMpegtsFrame(&dw.kept[i]); err != nil {
					return Panic("deferred: " + err.Error())
				}
			}
			return L(I(0), B(buf.Bytes()))
		}
		// how many frames reach the writer: every frame except in-band SPS/PPS/AUD after the
		// repair; wait for each call (or time out: the missing ones show in the bytes)
		cw := &countingWriter{w: w, done: make(chan struct{}, len(frames)+1)}
		mux, err := mpegts.NewMuxer(vm, am, cw, xlog.L())
		if err != nil {
			return Panic("NewMuxer: " + err.Error())
		}
		// the muxer goroutine reads the shared meta: before it is changed, wait until every frame
		// pushed so far has been written (a missing call times out and shows in the bytes)
		pushed, got := 0, 0
		deadline := time.After(5 * time.Second)
		drain := func() {
			for got < pushed {
				select {
				case <-cw.done:
					got++
				case <-deadline:
					got = pushed
				}
			}
		}
		for _, f := range frames {
			if isSet(f) {
				drain()
				applySet(vm, f)
				continue
			}
			fr := toFrame(f)
			if carried(fr) {
				pushed++
			}
			mux.WriteFrame(fr)
		}
		drain()
		// a frame that is (wrongly or rightly) not forwarded produces no call; give stragglers a moment
		time.Sleep(2 * time.Millisecond)
		for len(cw.done) > 0 {
			<-cw.done
			time.Sleep(time.Millisecond)
		}
		mux.Close()
		return L(I(0), B(append([]byte(nil), buf.Bytes()...)))
	}

	// (0 sps pps asc frames fragment rate) -> (0 (segment ...)): the packetizers write into a real
	// hls.SegmentGenerator (memory segments); every segment that appears in the playlist is read once
	commands["C09_hls"] = func(c Val) (out Val) {
		defer func() {
			if r := recover(); r != nil {
				out = L(I(1))
			}
		}()
		pl := hls.NewPlaylist()
		sg, err := hls.NewSegmentGenerator(pl, "/c09", int(c.At(5).Int()), "", int(c.At(6).Int()), nil)
		if err != nil {
			return Panic("NewSegmentGenerator: " + err.Error())
		}
		vm := &codec.VideoMeta{Codec: "H264", Sps: c.At(1).Bytes(), Pps: c.At(2).Bytes()}
		am := &codec.AudioMeta{Codec: "AAC", Sps: c.At(3).Bytes()}
		vp := mpegts.NewH264Packetizer(vm, sg)
		ap := mpegts.NewAacPacketizer(am, sg)
		segs := []Val{}
		next := 1
		for _, f := range c.At(4).List() {
			if isSet(f) {
				applySet(vm, f)
				continue
			}
			fr := toFrame(f)
			if fr.MediaType == codec.MediaTypeVideo {
				vp.Packetize(fr)
			} else {
				ap.Packetize(fr)
			}
			for {
				r, _, err := pl.Segment(next)
				if err != nil {
					break
				}
				segs = append(segs, B(readSeg(r)))
				next++
			}
		}
		sg.Close()
		pl.Close()
		return L(I(0), L(segs...))
	}

	// (0 sps pps asc frames marker): end to end.  media.NewStream with an SDP WITHOUT
	// sprop-parameter-sets; every source NAL unit travels as a single-NAL RTP packet (timestamp =
	// pts in 90 kHz) through Stream.WriteRtpPacket -> rtp demuxer -> Stream.WriteFrame -> ts muxer ->
	// hls.SegmentGenerator.  Segments are read from Stream.Hlsable() as they appear, until the one
	// containing the marker payload (the last but one key frame) is closed.
	commands["C09_e2e"] = func(c Val) (out Val) {
		defer func() {
			if r := recover(); r != nil {
				out = L(I(1))
			}
		}()
		config.VerifSetHlsFragment(5)
		config.VerifSetHlsPath("")
		s := media.NewStream("/c09e2e", e2eSdp)
		defer s.Close()
		h := s.Hlsable()
		if h == nil {
			return Panic("no hls")
		}
		marker := c.At(5).Bytes()
		segs := []Val{}
		next := 1
		found := false
		poll := func() {
			for {
				r, _, err := h.Segment(next)
				if err != nil {
					return
				}
				b := readSeg(r)
				if bytes.Contains(b, marker) {
					found = true
				}
				segs = append(segs, B(b))
				next++
			}
		}
		seq := uint16(0)
		for _, f := range c.At(4).List() {
			fr := toFrame(f)
			seq++
			s.WriteRtpPacket(rtpVideo(seq, uint32(fr.Pts*9/100000), fr.Payload))
			poll()
		}
		deadline := time.Now().Add(8 * time.Second)
		for !found && time.Now().Before(deadline) {
			time.Sleep(time.Millisecond)
			poll()
		}
		return L(I(0), L(segs...))
	}

	// ((frames of writer 0) (frames of writer 1) ...) ((a n b) ...)) -> (out0 out1 ...).
	// Several real mpegts.Writers, each on a scripted io.Writer.  Trigger (a n b): when writer a hands
	// its n-th TS packet to its io.Writer, writer b writes its next frame right there, i.e. between two
	// packets of a's frame (same goroutine, so the same P: sync.Pool hands b the buffer a put back
	// last, if a put one back).  Afterwards the remaining frames are written round robin.
	commands["C09_writers"] = func(c Val) Val {
		old := debug.SetGCPercent(-1) // a GC cycle would empty the pool
		defer func() { debug.SetGCPercent(old); runtime.GC() }()
		prevP := runtime.GOMAXPROCS(1)
		defer runtime.GOMAXPROCS(prevP)
		type wr struct {
			w      *mpegts.Writer
			out    bytes.Buffer
			frames []*mpegts.Frame
			next   int
			npk    int
			busy   bool
			trig   map[int][]int
		}
		var all []*wr
		var writeNext func(b int)
		for _, fl := range c.At(0).List() {
			x := &wr{trig: map[int][]int{}}
			for _, f := range fl.List() {
				x.frames = append(x.frames, mpegts.VerifNewFrame(int(f.At(0).Int()), int(f.At(1).Int()), f.At(2).Int(), f.At(3).Int(),
					f.At(4).Bytes(), f.At(5).Bytes(), f.At(6).Bool()))
			}
			all = append(all, x)
		}
		for _, t := range c.At(1).List() {
			a, n, b := int(t.At(0).Int()), int(t.At(1).Int()), int(t.At(2).Int())
			if a >= 0 && a < len(all) && b >= 0 && b < len(all) && a != b {
				all[a].trig[n] = append(all[a].trig[n], b)
			}
		}
		writeNext = func(b int) {
			x := all[b]
			if x.busy || x.next >= len(x.frames) {
				return
			}
			f := x.frames[x.next]
			x.next++
			x.busy = true
			x.w.WriteMpegtsFrame(f)
			x.busy = false
		}
		for i, x := range all {
			x := x
			w, err := mpegts.NewWriter(scriptedWriter(func(p []byte) {
				x.out.Write(p)
				if len(p) == 188 {
					x.npk++
					for _, b := range x.trig[x.npk] {
						writeNext(b)
					}
				}
			}))
			if err != nil {
				return Panic("NewWriter: " + err.Error())
			}
			all[i].w = w
		}
		for more := true; more; {
			more = false
			for i, x := range all {
				if x.next < len(x.frames) {
					writeNext(i)
					more = true
				}
			}
		}
		outs := []Val{}
		for _, x := range all {
			outs = append(outs, B(x.out.Bytes()))
		}
		return L(outs...)
	}

	// ((hls case A) (hls case B)) -> (0 (segments A) (segments B)): two streams, each with its own
	// packetizers and hls.SegmentGenerator, fed alternately (they share the mpegts scratch-buffer
	// pool and the hls segment-buffer pool)
	commands["C09_hls2"] = func(c Val) (out Val) {
		defer func() {
			if r := recover(); r != nil {
				out = L(I(1))
			}
		}()
		type st struct {
			pl     *hls.Playlist
			sg     *hls.SegmentGenerator
			vm     *codec.VideoMeta
			vp, ap mpegts.Packetizer
			evs    []Val
			pos    int
			next   int
			segs   []Val
		}
		var ss []*st
		for i := 0; i < 2; i++ {
			cc := c.At(i)
			x := &st{pl: hls.NewPlaylist(), evs: cc.At(4).List(), next: 1}
			sg, err := hls.NewSegmentGenerator(x.pl, "/c09-"+string(rune('a'+i)), int(cc.At(5).Int()), "", int(cc.At(6).Int()), nil)
			if err != nil {
				return Panic("NewSegmentGenerator: " + err.Error())
			}
			x.sg = sg
			x.vm = &codec.VideoMeta{Codec: "H264", Sps: cc.At(1).Bytes(), Pps: cc.At(2).Bytes()}
			x.vp = mpegts.NewH264Packetizer(x.vm, sg)
			x.ap = mpegts.NewAacPacketizer(&codec.AudioMeta{Codec: "AAC", Sps: cc.At(3).Bytes()}, sg)
			ss = append(ss, x)
		}
		for more := true; more; {
			more = false
			for _, x := range ss {
				if x.pos >= len(x.evs) {
					continue
				}
				more = true
				f := x.evs[x.pos]
				x.pos++
				if isSet(f) {
					applySet(x.vm, f)
					continue
				}
				fr := toFrame(f)
				if fr.MediaType == codec.MediaTypeVideo {
					x.vp.Packetize(fr)
				} else {
					x.ap.Packetize(fr)
				}
				for {
					r, _, err := x.pl.Segment(x.next)
					if err != nil {
						break
					}
					x.segs = append(x.segs, B(readSeg(r)))
					x.next++
				}
			}
		}
		for _, x := range ss {
			x.sg.Close()
			x.pl.Close()
		}
		return L(I(0), L(ss[0].segs...), L(ss[1].segs...))
	}

	// (config n) -> (0 header) | (1): AudioSpecificConfig.Decode then ToAdtsHeader(n)
	commands["C09_asc_header"] = func(c Val) Val {
		var asc aac.AudioSpecificConfig
		if err := asc.Decode(c.At(0).Bytes()); err != nil {
			return L(I(1))
		}
		h := asc.ToAdtsHeader(int(c.At(1).Int()))
		return L(I(0), B(h[:]))
	}

	// (profile sidx chan size) -> aac.NewADTSHeader
	commands["C09_adts"] = func(c Val) Val {
		h := aac.NewADTSHeader(byte(c.At(0).Int()), byte(c.At(1).Int()), byte(c.At(2).Int()), int(c.At(3).Int()))
		return B(h[:])
	}
	// CRC-32/MPEG-2 (the standard library only has reflected CRCs): bitwise, written
	// independently of the Coq text, as a cross-check of crc32_mpeg
	commands["C09_crc"] = func(c Val) Val {
		crc := uint32(0xffffffff)
		for _, b := range c.Bytes() {
			crc ^= uint32(b) << 24
			for i := 0; i < 8; i++ {
				if crc&0x80000000 != 0 {
					crc = crc<<1 ^ 0x04c11db7
				} else {
					crc <<= 1
				}
			}
		}
		return U(uint64(crc))
	}
}
