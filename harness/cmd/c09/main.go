package main

import (
	"bytes"
	"io"
	"io/ioutil"
	"time"

	. "vh/lib"

	"github.com/cnotch/ipchub/av/codec"
	"github.com/cnotch/ipchub/av/codec/aac"
	"github.com/cnotch/ipchub/av/format/hls"
	"github.com/cnotch/ipchub/av/format/mpegts"
	"github.com/cnotch/xlog"
)

var commands = map[string]func(Val) Val{}

func main() { Main(commands) }

// countingWriter forwards to the real Writer and reports every call, so that the
// asynchronous Muxer can be waited for deterministically.
type countingWriter struct {
	w    *mpegts.Writer
	done chan struct{}
}

func (c *countingWriter) WriteMpegtsFrame(f *mpegts.Frame) error {
	err := c.w.WriteMpegtsFrame(f)
	c.done <- struct{}{}
	return err
}

// deferredWriter keeps every frame the way hls.SegmentGenerator keeps the first audio
// frame of a group (a struct copy, Header and Payload slices retained) and writes them
// only at the end: a packetizer that reuses a buffer for Header shows here.
type deferredWriter struct{ kept []mpegts.Frame }

func (d *deferredWriter) WriteMpegtsFrame(f *mpegts.Frame) error {
	d.kept = append(d.kept, *f)
	return nil
}

func readSeg(r io.Reader) []byte {
	b, _ := ioutil.ReadAll(r)
	if c, ok := r.(io.Closer); ok {
		c.Close()
	}
	return b
}

func toFrame(v Val) *codec.Frame {
	mt := codec.MediaTypeAudio
	if v.At(0).Bool() {
		mt = codec.MediaTypeVideo
	}
	return &codec.Frame{MediaType: mt, Dts: v.At(1).Int(), Pts: v.At(2).Int(), Payload: v.At(3).Bytes()}
}

func init() {
	// list of (pid sid dts pts header payload key) -> bytes written by mpegts.Writer
	commands["C09_write"] = func(c Val) Val {
		var buf bytes.Buffer
		w, err := mpegts.NewWriter(&buf)
		if err != nil {
			return Panic("NewWriter: " + err.Error())
		}
		for _, f := range c.List() {
			fr := mpegts.VerifNewFrame(int(f.At(0).Int()), int(f.At(1).Int()), f.At(2).Int(), f.At(3).Int(),
				f.At(4).Bytes(), f.At(5).Bytes(), f.At(6).Bool())
			if err := w.WriteMpegtsFrame(fr); err != nil {
				return Panic("WriteMpegtsFrame: " + err.Error())
			}
		}
		return B(buf.Bytes())
	}

	// (mode sps pps asc frames) -> (0 bytes) | (1)
	// mode 0: the packetizers called synchronously; mode 1: mpegts.NewMuxer (queue + goroutine)
	commands["C09_mux"] = func(c Val) (out Val) {
		defer func() {
			if r := recover(); r != nil {
				out = L(I(1))
			}
		}()
		var buf bytes.Buffer
		w, err := mpegts.NewWriter(&buf)
		if err != nil {
			return Panic("NewWriter: " + err.Error())
		}
		vm := &codec.VideoMeta{Codec: "H264", Sps: c.At(1).Bytes(), Pps: c.At(2).Bytes()}
		am := &codec.AudioMeta{Codec: "AAC", Sps: c.At(3).Bytes()}
		frames := c.At(4).List()
		if c.At(0).Int() == 0 || c.At(0).Int() == 2 {
			var fw mpegts.FrameWriter = w
			dw := &deferredWriter{}
			if c.At(0).Int() == 2 {
				fw = dw
			}
			vp := mpegts.NewH264Packetizer(vm, fw)
			ap := mpegts.NewAacPacketizer(am, fw)
			for _, f := range frames {
				fr := toFrame(f)
				if fr.MediaType == codec.MediaTypeVideo {
					if err := vp.Packetize(fr); err != nil {
						return Panic("video: " + err.Error())
					}
				} else {
					if err := ap.Packetize(fr); err != nil {
						return Panic("audio: " + err.Error())
					}
				}
			}
			for i := range dw.kept {
				if err := w.WriteMpegtsFrame(&dw.kept[i]); err != nil {
					return Panic("deferred: " + err.Error())
				}
			}
			return L(I(0), B(buf.Bytes()))
		}
		// how many frames reach the writer: every frame except in-band SPS/PPS/AUD after the
		// repair; wait for each call (or time out: the missing ones show in the bytes)
		cw := &countingWriter{w: w, done: make(chan struct{}, len(frames)+1)}
		mux, err := mpegts.NewMuxer(vm, am, cw, xlog.L())
		if err != nil {
			return Panic("NewMuxer: " + err.Error())
		}
		for _, f := range frames {
			mux.WriteFrame(toFrame(f))
		}
		want := int(c.At(5).Int())
		deadline := time.After(5 * time.Second)
		for got := 0; got < want; {
			select {
			case <-cw.done:
				got++
			case <-deadline:
				got = want
			}
		}
		// a frame that is (wrongly or rightly) not forwarded produces no call; give stragglers a moment
		time.Sleep(2 * time.Millisecond)
		for len(cw.done) > 0 {
			<-cw.done
			time.Sleep(time.Millisecond)
		}
		mux.Close()
		return L(I(0), B(append([]byte(nil), buf.Bytes()...)))
	}

	// (0 sps pps asc frames fragment rate) -> (0 (segment ...)): the packetizers write into a real
	// hls.SegmentGenerator (memory segments); every segment that appears in the playlist is read once
	commands["C09_hls"] = func(c Val) (out Val) {
		defer func() {
			if r := recover(); r != nil {
				out = L(I(1))
			}
		}()
		pl := hls.NewPlaylist()
		sg, err := hls.NewSegmentGenerator(pl, "/c09", int(c.At(5).Int()), "", int(c.At(6).Int()), nil)
		if err != nil {
			return Panic("NewSegmentGenerator: " + err.Error())
		}
		vm := &codec.VideoMeta{Codec: "H264", Sps: c.At(1).Bytes(), Pps: c.At(2).Bytes()}
		am := &codec.AudioMeta{Codec: "AAC", Sps: c.At(3).Bytes()}
		vp := mpegts.NewH264Packetizer(vm, sg)
		ap := mpegts.NewAacPacketizer(am, sg)
		segs := []Val{}
		next := 1
		for _, f := range c.At(4).List() {
			fr := toFrame(f)
			if fr.MediaType == codec.MediaTypeVideo {
				vp.Packetize(fr)
			} else {
				ap.Packetize(fr)
			}
			for {
				r, _, err := pl.Segment(next)
				if err != nil {
					break
				}
				segs = append(segs, B(readSeg(r)))
				next++
			}
		}
		sg.Close()
		pl.Close()
		return L(I(0), L(segs...))
	}

	// (profile sidx chan size) -> aac.NewADTSHeader
	commands["C09_adts"] = func(c Val) Val {
		h := aac.NewADTSHeader(byte(c.At(0).Int()), byte(c.At(1).Int()), byte(c.At(2).Int()), int(c.At(3).Int()))
		return B(h[:])
	}
	// CRC-32/MPEG-2 (the standard library only has reflected CRCs): bitwise, written
	// independently of the Coq text, as a cross-check of crc32_mpeg
	commands["C09_crc"] = func(c Val) Val {
		crc := uint32(0xffffffff)
		for _, b := range c.Bytes() {
			crc ^= uint32(b) << 24
			for i := 0; i < 8; i++ {
				if crc&0x80000000 != 0 {
					crc = crc<<1 ^ 0x04c11db7
				} else {
					crc <<= 1
				}
			}
		}
		return U(uint64(crc))
	}
}
