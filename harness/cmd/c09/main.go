package main

import (
	"bytes"
	"time"

	. "vh/lib"

	"github.com/cnotch/ipchub/av/codec"
	"github.com/cnotch/ipchub/av/codec/aac"
	"github.com/cnotch/ipchub/av/format/mpegts"
	"github.com/cnotch/xlog"
)

var commands = map[string]func(Val) Val{}

func main() { Main(commands) }

// countingWriter forwards to the real Writer and reports every call, so that the
// asynchronous Muxer can be waited for deterministically.
type countingWriter struct {
	w    *mpegts.Writer
	done chan struct{}
}

func (c *countingWriter) WriteMpegtsFrame(f *mpegts.Frame) error {
	err := c.w.WriteMpegtsFrame(f)
	c.done <- struct{}{}
	return err
}

func toFrame(v Val) *codec.Frame {
	mt := codec.MediaTypeAudio
	if v.At(0).Bool() {
		mt = codec.MediaTypeVideo
	}
	return &codec.Frame{MediaType: mt, Dts: v.At(1).Int(), Pts: v.At(2).Int(), Payload: v.At(3).Bytes()}
}

func init() {
	// list of (pid sid dts pts header payload key) -> bytes written by mpegts.Writer
	commands["C09_write"] = func(c Val) Val {
		var buf bytes.Buffer
		w, err := mpegts.NewWriter(&buf)
		if err != nil {
			return Panic("NewWriter: " + err.Error())
		}
		for _, f := range c.List() {
			fr := mpegts.VerifNewFrame(int(f.At(0).Int()), int(f.At(1).Int()), f.At(2).Int(), f.At(3).Int(),
				f.At(4).Bytes(), f.At(5).Bytes(), f.At(6).Bool())
			if err := w.WriteMpegtsFrame(fr); err != nil {
				return Panic("WriteMpegtsFrame: " + err.Error())
			}
		}
		return B(buf.Bytes())
	}

	// (mode sps pps asc frames) -> (0 bytes) | (1)
	// mode 0: the packetizers called synchronously; mode 1: mpegts.NewMuxer (queue + goroutine)
	commands["C09_mux"] = func(c Val) (out Val) {
		defer func() {
			if r := recover(); r != nil {
				out = L(I(1))
			}
		}()
		var buf bytes.Buffer
		w, err := mpegts.NewWriter(&buf)
		if err != nil {
			return Panic("NewWriter: " + err.Error())
		}
		vm := &codec.VideoMeta{Codec: "H264", Sps: c.At(1).Bytes(), Pps: c.At(2).Bytes()}
		am := &codec.AudioMeta{Codec: "AAC", Sps: c.At(3).Bytes()}
		frames := c.At(4).List()
		if c.At(0).Int() == 0 {
			vp := mpegts.NewH264Packetizer(vm, w)
			ap := mpegts.NewAacPacketizer(am, w)
			for _, f := range frames {
				fr := toFrame(f)
				if fr.MediaType == codec.MediaTypeVideo {
					if err := vp.Packetize(fr); err != nil {
						return Panic("video: " + err.Error())
					}
				} else {
					if err := ap.Packetize(fr); err != nil {
						return Panic("audio: " + err.Error())
					}
				}
			}
			return L(I(0), B(buf.Bytes()))
		}
		// how many frames reach the writer: every frame except in-band SPS/PPS/AUD after the
		// repair; wait for each call (or time out: the missing ones show in the bytes)
		cw := &countingWriter{w: w, done: make(chan struct{}, len(frames)+1)}
		mux, err := mpegts.NewMuxer(vm, am, cw, xlog.L())
		if err != nil {
			return Panic("NewMuxer: " + err.Error())
		}
		for _, f := range frames {
			mux.WriteFrame(toFrame(f))
		}
		want := int(c.At(5).Int())
		deadline := time.After(5 * time.Second)
		for got := 0; got < want; {
			select {
			case <-cw.done:
				got++
			case <-deadline:
				got = want
			}
		}
		// a frame that is (wrongly or rightly) not forwarded produces no call; give stragglers a moment
		time.Sleep(2 * time.Millisecond)
		for len(cw.done) > 0 {
			<-cw.done
			time.Sleep(time.Millisecond)
		}
		mux.Close()
		return L(I(0), B(append([]byte(nil), buf.Bytes()...)))
	}

	// (profile sidx chan size) -> aac.NewADTSHeader
	commands["C09_adts"] = func(c Val) Val {
		h := aac.NewADTSHeader(byte(c.At(0).Int()), byte(c.At(1).Int()), byte(c.At(2).Int()), int(c.At(3).Int()))
		return B(h[:])
	}
	// CRC-32/MPEG-2 (the standard library only has reflected CRCs): bitwise, written
	// independently of the Coq text, as a cross-check of crc32_mpeg
	commands["C09_crc"] = func(c Val) Val {
		crc := uint32(0xffffffff)
		for _, b := range c.Bytes() {
			crc ^= uint32(b) << 24
			for i := 0; i < 8; i++ {
				if crc&0x80000000 != 0 {
					crc = crc<<1 ^ 0x04c11db7
				} else {
					crc <<= 1
				}
			}
		}
		return U(uint64(crc))
	}
}
