package main

import (
	"bytes"
	"math"
	"strings"
	"sync"
	"sync/atomic"
	"time"

	. "vh/lib"

	"github.com/cnotch/ipchub/av/codec"
	"github.com/cnotch/ipchub/av/codec/h264"
	"github.com/cnotch/ipchub/av/codec/hevc"
	"github.com/cnotch/ipchub/av/format/amf"
	"github.com/cnotch/ipchub/av/format/flv"
	"github.com/cnotch/ipchub/media/cache"
	"github.com/cnotch/queue"
	"github.com/cnotch/ipchub/utils/verifhook"
	"github.com/cnotch/xlog"
)

// log core: tells the harness when the muxer goroutine died in a panic
type c08Core struct {
	mu     sync.Mutex
	died   chan struct{}
	closed bool
}

func (c *c08Core) Enabled(l xlog.Level) bool { return l >= xlog.ErrorLevel }
func (c *c08Core) Sync() error               { return nil }
func (c *c08Core) Write(e xlog.Entry) error {
	if strings.Contains(e.Message, "routine panic") {
		c.mu.Lock()
		if !c.closed {
			c.closed = true
			close(c.died)
		}
		c.mu.Unlock()
	}
	return nil
}

// quiescence of the muxer goroutine: it passes the schedule point "worker.pop" (id 2) once at
// start and once after every frame it has finished with, so after n frames the (n+1)-th pass
// means everything pushed has been processed (whether written or dropped)
var (
	c08Pops   int64
	c08Target int64
	c08Idle   chan struct{}
)

func c08Point(name string, id uint32) {
	if id == 2 && name == "worker.pop" {
		if atomic.AddInt64(&c08Pops, 1) == atomic.LoadInt64(&c08Target) {
			close(c08Idle)
		}
	}
}

// TagWriter between the muxer and the writer: forwards or collects
type c08Sink struct {
	direct *flv.Writer
	tags   []*flv.Tag
}

func (s *c08Sink) WriteFlvTag(tag *flv.Tag) error {
	if s.direct != nil {
		return s.direct.WriteFlvTag(tag)
	}
	cp := *tag
	s.tags = append(s.tags, &cp)
	return nil
}

func c08Metas(c Val) (*codec.VideoMeta, *codec.AudioMeta) {
	vm := &codec.VideoMeta{Codec: "H264", Sps: c.At(1).Bytes(), Pps: c.At(2).Bytes(), Vps: c.At(3).Bytes(),
		Width: int(c.At(5).Int()), Height: int(c.At(6).Int()),
		FrameRate: math.Float64frombits(c08u64(c.At(7))), DataRate: math.Float64frombits(c08u64(c.At(8)))}
	if c.At(0).Bool() {
		vm.Codec = "H265"
	}
	if c.At(16).Bool() {
		// the stream's meta data come from the SPS, as sdp.parseMeta / the depacketisers fill them
		vm.Width, vm.Height, vm.FrameRate = 0, 0, 0
		if vm.Codec == "H265" {
			hevc.MetadataIsReady(vm)
		} else {
			h264.MetadataIsReady(vm)
		}
	}
	am := &codec.AudioMeta{}
	if c.At(9).Bool() {
		am = &codec.AudioMeta{Codec: "AAC", Sps: c.At(10).Bytes(), SampleRate: int(c.At(11).Int()),
			SampleSize: int(c.At(12).Int()), Channels: int(c.At(13).Int()),
			DataRate: math.Float64frombits(c08u64(c.At(14)))}
	}
	return vm, am
}

func c08u64(v Val) uint64 {
	if v.Big != nil {
		return v.Big.Uint64()
	}
	return uint64(v.I)
}

func c08Run(c Val) Val {
	cfg, frames, k, t0, mode := c.At(0), c.At(1).List(), int(c.At(2).Int()), uint32(c08u64(c.At(3))), c.At(4).Int()
	vm, am := c08Metas(cfg)
	var out bytes.Buffer
	core := &c08Core{died: make(chan struct{})}
	sink := &c08Sink{}
	logger := xlog.New(core)
	atomic.StoreInt64(&c08Pops, 0)
	atomic.StoreInt64(&c08Target, int64(len(frames))+1)
	c08Idle = make(chan struct{})
	verifhook.SetPoint(c08Point)
	defer verifhook.SetPoint(nil)

	mux, err := flv.NewMuxer(vm, am, sink, logger)
	if err != nil {
		return L(S("!err"), S(err.Error()))
	}
	w, err := flv.NewWriter(&out, mux.TypeFlags())
	if err != nil {
		return L(S("!err"), S(err.Error()))
	}
	if mode == 0 {
		sink.direct = w
	}
	for _, f := range frames {
		mux.WriteFrame(&codec.Frame{MediaType: codec.MediaType(f.At(0).Int()), Dts: f.At(1).Int(),
			Pts: f.At(2).Int(), Payload: f.At(3).Bytes()})
	}
	select {
	case <-c08Idle:
	case <-core.died:
	case <-time.After(20 * time.Second):
		return L(S("!hang"), S("muxer did not drain"))
	}
	verifhook.SetPoint(nil)
	mux.Close()
	if mode != 0 {
		// what media.FlvCache.PushTo hands a joining consumer: cached configuration tags
		// restamped, then the media tags from k on
		var cfgs, media []*flv.Tag
		for _, t := range sink.tags {
			if t.IsMetadata() || t.IsH2645SequenceHeader() || t.IsAACSequenceHeader() {
				cp := *t
				cp.Timestamp = t0
				cfgs = append(cfgs, &cp)
			} else {
				media = append(media, t)
			}
		}
		if k > len(media) {
			k = len(media)
		}
		for _, t := range append(cfgs, media[k:]...) {
			if err := w.WriteFlvTag(t); err != nil {
				return L(S("!err"), S(err.Error()))
			}
		}
	}
	return B(out.Bytes())
}

// several clients of one stream sharing the muxer's *flv.Tag objects, as media.Stream.WriteFlvTag does:
// the same pointer goes to the real GOP cache and to the queue of every attached client; each client
// drains its queue into its own flv.Writer when the case lets its routine run
type c08Client struct {
	q   *queue.SyncQueue
	out bytes.Buffer
	w   *flv.Writer
}

func (c *c08Client) write(n int) {
	for i := 0; i < n; i++ {
		e, ok := c.q.Queue().Pop()
		if !ok {
			return
		}
		c.w.WriteFlvTag(e.(*flv.Tag))
	}
}

func c08Fan(c Val) Val {
	cfg, frames, events := c.At(0), c.At(1).List(), c.At(2).List()
	vm, am := c08Metas(cfg)
	core := &c08Core{died: make(chan struct{})}
	sink := &c08Sink{}
	atomic.StoreInt64(&c08Pops, 0)
	atomic.StoreInt64(&c08Target, int64(len(frames))+1)
	c08Idle = make(chan struct{})
	verifhook.SetPoint(c08Point)
	defer verifhook.SetPoint(nil)
	mux, err := flv.NewMuxer(vm, am, sink, xlog.New(core))
	if err != nil {
		return L(S("!err"), S(err.Error()))
	}
	for _, f := range frames {
		mux.WriteFrame(&codec.Frame{MediaType: codec.MediaType(f.At(0).Int()), Dts: f.At(1).Int(),
			Pts: f.At(2).Int(), Payload: f.At(3).Bytes()})
	}
	select {
	case <-c08Idle:
	case <-core.died:
	case <-time.After(20 * time.Second):
		return L(S("!hang"), S("muxer did not drain"))
	}
	verifhook.SetPoint(nil)
	mux.Close()

	tags := sink.tags // the shared objects
	fc := cache.NewFlvCache(true)
	var clients []*c08Client
	for _, e := range events {
		switch e.At(0).Int() {
		case 0:
			i := int(e.At(1).Int())
			if i < len(tags) {
				fc.CachePack(tags[i])
				for _, cl := range clients {
					cl.q.Queue().Push(tags[i])
				}
			}
		case 1:
			cl := &c08Client{q: queue.NewSyncQueue()}
			w, err := flv.NewWriter(&cl.out, mux.TypeFlags())
			if err != nil {
				return L(S("!err"), S(err.Error()))
			}
			cl.w = w
			fc.PushTo(cl.q)
			clients = append(clients, cl)
		default:
			j := int(e.At(1).Int())
			if j < len(clients) {
				clients[j].write(int(e.At(2).Int()))
			}
		}
	}
	outs := []Val{}
	for _, cl := range clients {
		cl.write(cl.q.Queue().Len())
		outs = append(outs, B(cl.out.Bytes()))
	}
	tss := []Val{}
	for _, t := range tags {
		tss = append(tss, L(I(int64(t.TagType)), I(int64(t.Timestamp)), B(t.Data)))
	}
	return L(L(tss...), L(outs...))
}

var commands = map[string]func(Val) Val{}

func main() { Main(commands) }

func init() {
	time.Local = time.UTC // RFC3339 creation date then always ends in "Z" (20 bytes)
	commands["C08"] = c08Run
	commands["C08fan"] = c08Fan
	commands["hvcc"] = func(c Val) Val {
		rec := flv.NewHEVCDecoderConfigurationRecord(c.At(0).Bytes(), c.At(1).Bytes(), c.At(2).Bytes())
		b, _ := rec.Marshal()
		return B(b[1:22])
	}
	commands["hvcc5"] = func(c Val) Val {
		rec := flv.NewHEVCDecoderConfigurationRecord(c.At(2).Bytes(), c.At(3).Bytes(), c.At(4).Bytes())
		b, _ := rec.Marshal()
		return B(b[1:22])
	}
	commands["f64"] = func(c Val) Val { return U(math.Float64bits(float64(c.Int()))) }
	commands["amf"] = func(c Val) Val {
		arr := amf.EcmaArray{}
		for _, p := range c.At(1).List() {
			var v interface{}
			switch p.At(1).Int() {
			case 0:
				v = math.Float64frombits(c08u64(p.At(2)))
			case 1:
				v = p.At(2).Bool()
			default:
				v = p.At(2).Str()
			}
			arr = append(arr, amf.ObjectProperty{Name: p.At(0).Str(), Value: v})
		}
		sd := flv.ScriptData{Name: c.At(0).Str(), Value: arr}
		b, err := sd.Marshal()
		if err != nil {
			return L(S("!err"), S(err.Error()))
		}
		return B(b)
	}
}
