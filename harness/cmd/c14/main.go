package main

import (
	"bufio"
	"bytes"
	"errors"
	"io"
	"net/url"
	"sort"

	. "vh/lib"

	"github.com/cnotch/ipchub/av/format/rtp"
	fmtrtsp "github.com/cnotch/ipchub/av/format/rtsp"
	svc "github.com/cnotch/ipchub/service/rtsp"
	pionrtp "github.com/pion/rtp"
)

// chunkReader delivers data (then `extra` copies of fill, produced lazily) in the read
// sizes given by the case, and counts what was pulled.
type chunkReader struct {
	data   []byte
	fill   byte
	extra  int64
	sizes  []int
	k      int
	pos    int
	pulled int64
}

func (c *chunkReader) Read(p []byte) (int, error) {
	n := 4096
	if len(c.sizes) > 0 {
		n = c.sizes[c.k%len(c.sizes)]
		c.k++
	}
	if n < 1 {
		n = 1
	}
	if n > len(p) {
		n = len(p)
	}
	if c.pos < len(c.data) {
		m := copy(p[:n], c.data[c.pos:])
		c.pos += m
		c.pulled += int64(m)
		return m, nil
	}
	if c.extra > 0 {
		if int64(n) > c.extra {
			n = int(c.extra)
		}
		for i := 0; i < n; i++ {
			p[i] = c.fill
		}
		c.extra -= int64(n)
		c.pulled += int64(n)
		return n, nil
	}
	return 0, io.EOF
}

func encHeader(h fmtrtsp.Header) Val {
	keys := make([]string, 0, len(h))
	for k := range h {
		keys = append(keys, k)
	}
	sort.Strings(keys)
	out := make([]Val, 0, len(keys))
	for _, k := range keys {
		vs := make([]Val, 0, len(h[k]))
		for _, v := range h[k] {
			vs = append(vs, S(v))
		}
		out = append(out, L(S(k), L(vs...)))
	}
	return L(out...)
}

func decHeader(v Val) fmtrtsp.Header {
	h := fmtrtsp.Header{}
	for _, f := range v.List() {
		vals := []string{}
		for _, x := range f.At(1).List() {
			vals = append(vals, x.Str())
		}
		h[f.At(0).Str()] = vals
	}
	return h
}

// the parsed URL as observed: fields, then Hostname(), Port(), String()
func encURL(u *url.URL) Val {
	user := L()
	if u.User != nil {
		user = L(S(u.User.String()))
	}
	query := L()
	if u.ForceQuery || u.RawQuery != "" {
		query = L(S(u.RawQuery))
	}
	return L(S(u.Scheme), user, S(u.Host), S(u.EscapedPath()), query, S(u.Hostname()), S(u.Port()), S(u.String()))
}

// printSurl prints a structured URL of the case: (0) | (1 path query?) | (2 scheme user? host port? path query?)
func printSurl(v Val) string {
	opt := func(o Val, pre string) string {
		if len(o.List()) == 0 {
			return ""
		}
		return pre + o.At(0).Str()
	}
	switch v.At(0).Int() {
	case 0:
		return "*"
	case 1:
		return v.At(1).Str() + opt(v.At(2), "?")
	}
	s := v.At(1).Str() + "://"
	if ui := v.At(2).List(); len(ui) == 1 {
		s += ui[0].Str() + "@"
	} else if len(ui) >= 2 {
		s += ui[0].Str() + ":" + ui[1].Str() + "@"
	}
	h := v.At(3)
	if h.At(0).Int() == 0 {
		s += h.At(1).Str()
	} else {
		s += "[" + h.At(1).Str()
		if len(h.List()) > 2 {
			s += "%25" + h.At(2).Str()
		}
		s += "]"
	}
	return s + opt(v.At(4), ":") + v.At(5).Str() + opt(v.At(6), "?")
}

func encRequest(q *fmtrtsp.Request) Val {
	return L(I(0), S(q.Method), encURL(q.URL), S(q.Proto), encHeader(q.Header), S(q.Body))
}
func encResponse(p *fmtrtsp.Response) Val {
	return L(I(1), S(p.Proto), I(int64(p.StatusCode)), S(p.Status), encHeader(p.Header), S(p.Body))
}
func encPack(p *rtp.Packet) Val { return L(I(2), I(int64(p.Channel)), B(p.Data)) }

func decCfg(v Val) []int {
	out := []int{}
	for _, x := range v.List() {
		out = append(out, int(x.Int()))
	}
	return out
}
func decSizes(v Val) []int { return decCfg(v) }

// the read loop: kind 0 = receive dispatcher, 1 = ReadRequest, 2 = ReadResponse, 3 = ReadPacket
func readLoop(kind int64, cfg []int, bufsize int, cr *chunkReader) (events []Val, final int64) {
	br := bufio.NewReaderSize(cr, bufsize)
	off := func() Val { return I(cr.pulled - int64(br.Buffered())) }
	h := &svc.VerifReceiveHandler{
		OnRequest:  func(q *fmtrtsp.Request) error { events = append(events, L(encRequest(q), off())); return nil },
		OnResponse: func(p *fmtrtsp.Response) error { events = append(events, L(encResponse(p), off())); return nil },
		OnPack:     func(p *rtp.Packet) error { events = append(events, L(encPack(p), off())); return nil },
	}
	for {
		// a clean end of the stream: nothing at all left at a message boundary
		if _, perr := br.Peek(1); perr != nil {
			final = 0
			return
		}
		var err error
		switch kind {
		case 1:
			var q *fmtrtsp.Request
			if q, err = fmtrtsp.ReadRequest(br); err == nil {
				h.OnRequest(q)
			}
		case 2:
			var p *fmtrtsp.Response
			if p, err = fmtrtsp.ReadResponse(br); err == nil {
				h.OnResponse(p)
			}
		case 3:
			var p *rtp.Packet
			if p, err = rtp.ReadPacket(br, cfg); err == nil {
				h.OnPack(p)
			} else if p != nil {
				// the whole frame was consumed but is not usable (unknown channel / bad RTP header)
				events = append(events, L(L(I(3)), off()))
				err = nil
			}
		default:
			n := len(events)
			if err = svc.VerifReceive(br, cfg, h); err == nil && len(events) == n {
				// receive dropped a frame and goes on
				events = append(events, L(L(I(3)), off()))
			}
		}
		if err != nil {
			var ue *url.Error
			switch {
			case errors.As(err, &ue):
				final = 2
			default:
				final = 1
			}
			return
		}
	}
}

var commands = map[string]func(Val) Val{}

func main() { Main(commands) }

func init() {
	// (kind cfg bufsize chunks bytes (fill count)) -> (events final pulled)
	commands["C14_raw"] = func(c Val) Val {
		cr := &chunkReader{data: c.At(4).Bytes(), sizes: decSizes(c.At(3))}
		if ex := c.At(5); len(ex.List()) == 2 {
			cr.fill, cr.extra = byte(ex.At(0).Int()), ex.At(1).Int()
		}
		evs, fin := readLoop(c.At(0).Int(), decCfg(c.At(1)), int(c.At(2).Int()), cr)
		return L(L(evs...), I(fin), I(cr.pulled))
	}
	// (cfg bufsize chunks items tail) -> (wire events final pulled)
	commands["C14_items"] = func(c Val) Val {
		cfg := decCfg(c.At(0))
		var wire bytes.Buffer
		for _, it := range c.At(3).List() {
			switch it.At(0).Int() {
			case 0:
				u, err := url.Parse(printSurl(it.At(2)))
				if err != nil {
					return L(S("!badcase"), S(err.Error()))
				}
				q := &fmtrtsp.Request{Method: it.At(1).Str(), URL: u, Proto: "RTSP/1.0", Header: decHeader(it.At(3)), Body: it.At(4).Str()}
				if err := q.Write(&wire); err != nil {
					return L(S("!badcase"), S(err.Error()))
				}
			case 1:
				p := &fmtrtsp.Response{Proto: "RTSP/1.0", StatusCode: int(it.At(1).Int()), Status: it.At(2).Str(), Header: decHeader(it.At(3)), Body: it.At(4).Str()}
				if err := p.Write(&wire); err != nil {
					return L(S("!badcase"), S(err.Error()))
				}
			default:
				p := &rtp.Packet{Channel: byte(it.At(1).Int()), Data: it.At(2).Bytes()}
				if err := p.Write(&wire, cfg); err != nil {
					return L(S("!badcase"), S(err.Error()))
				}
			}
		}
		wire.Write(c.At(4).Bytes())
		data := append([]byte(nil), wire.Bytes()...)
		cr := &chunkReader{data: data, sizes: decSizes(c.At(2))}
		evs, fin := readLoop(0, cfg, int(c.At(1).Int()), cr)
		return L(B(data), L(evs...), I(fin), I(cr.pulled))
	}
	// structured URL -> (printed, url.ParseRequestURI of it, the URL of the request read back by ReadRequest)
	commands["C14_urllaw"] = func(c Val) Val {
		s := printSurl(c)
		g, err := url.ParseRequestURI(s)
		if err != nil {
			return L(S(s), S("!parse "+err.Error()))
		}
		// the pull client emits its configured URL verbatim: url.Parse + Request.Write
		cfgURL, err := url.Parse(s)
		if err != nil {
			return L(S(s), S("!parse "+err.Error()))
		}
		method := "DESCRIBE"
		if s == "*" {
			method = "OPTIONS"
		}
		var wire bytes.Buffer
		(&fmtrtsp.Request{Method: method, URL: cfgURL, Header: fmtrtsp.Header{"CSeq": []string{"1"}}}).Write(&wire)
		q, err := fmtrtsp.ReadRequest(bufio.NewReader(bytes.NewReader(wire.Bytes())))
		if err != nil {
			return L(S(s), encURL(g), S("!read "+err.Error()))
		}
		return L(S(cfgURL.String()), encURL(g), encURL(q.URL))
	}
	// structured URL -> (URL the pull client keeps, URL of its first request read back by ReadRequest)
	commands["C14_pullurl"] = func(c Val) Val {
		kept, wire, err := svc.VerifPullClientURL("/verif/c14", printSurl(c))
		if err != nil {
			return L(S("!new " + err.Error()))
		}
		q, err := fmtrtsp.ReadRequest(bufio.NewReader(bytes.NewReader(wire)))
		if err != nil {
			return L(encURL(kept), S("!read "+err.Error()))
		}
		return L(encURL(kept), encURL(q.URL))
	}
	// canonicalKV through Header.Add (which applies it to the key)
	commands["C14_canonkv"] = func(c Val) Val {
		h := fmtrtsp.Header{}
		h.Add(c.Str(), "x")
		for k := range h {
			return S(k)
		}
		return S("")
	}
	// the key a header line "k: v" is stored under
	commands["C14_canonkey"] = func(c Val) Val {
		h, err := fmtrtsp.ReadHeader(bufio.NewReader(bytes.NewReader(append(append([]byte{}, c.Bytes()...), []byte(": v\r\n\r\n")...))))
		if err != nil {
			return S("!err")
		}
		for k := range h {
			return S(k)
		}
		return S("")
	}
	// pion Header.Unmarshal: 0 ok, 1 error, 2 panic
	commands["C14_rtphdr"] = func(c Val) (out Val) {
		defer func() {
			if recover() != nil {
				out = I(2)
			}
		}()
		var h pionrtp.Header
		d := append(make([]byte, 0, len(c.Bytes())), c.Bytes()...)
		if err := h.Unmarshal(d[:len(d):len(d)]); err != nil {
			return I(1)
		}
		return I(0)
	}
}
