// C18 harness: user / route tables through their public API with the real JSON
// providers on temporary files (wrapped so that the arguments of provider.Flush
// are recorded), restarts (a fresh Reset on the same file), and flushes performed
// by a child process that is killed at a named crash point of utils.EncodeJSONFile.
package main

import (
	"errors"
	"fmt"
	"io/ioutil"
	"os"
	"os/exec"
	"path/filepath"
	"runtime"
	"sort"
	"strings"
	"syscall"
	"time"

	. "vh/lib"

	"github.com/cnotch/ipchub/provider/auth"
	"github.com/cnotch/ipchub/provider/route"
	"github.com/cnotch/ipchub/utils/verifhook"
)

// ---------------------------------------------------------------- wire
func encUser(u *auth.User) Val {
	return L(S(u.Name), S(u.Password), Bo(u.Admin), S(u.PushAccess), S(u.PullAccess))
}
func decUser(v Val) *auth.User {
	return &auth.User{Name: v.At(0).Str(), Password: v.At(1).Str(), Admin: v.At(2).Bool(),
		PushAccess: v.At(3).Str(), PullAccess: v.At(4).Str()}
}
func encRoute(r *route.Route) Val { return L(S(r.Pattern), S(r.URL), Bo(r.KeepAlive)) }
func decRoute(v Val) *route.Route {
	return &route.Route{Pattern: v.At(0).Str(), URL: v.At(1).Str(), KeepAlive: v.At(2).Bool()}
}
func encUsers(us []*auth.User) Val {
	out := []Val{}
	for _, u := range us {
		out = append(out, encUser(u))
	}
	return L(out...)
}
func encRoutes(rs []*route.Route) Val {
	out := []Val{}
	for _, r := range rs {
		out = append(out, encRoute(r))
	}
	return L(out...)
}

// ---------------------------------------------------------------- a table behind one interface
type table interface {
	configure(file string)
	reset()                // Reset(provider): LoadAll + init; panics when LoadAll fails
	apply(op Val) Val      // ops 0..3
	flush() Val            // the recorded provider.Flush call: () or ((full saves removes))
	all() Val              // All()
	loadRaw() (Val, error) // provider.LoadAll, entries as stored
	gateOf() *gate
	flushErr() (Val, error) // Flush without panicking on a provider error
}

// gate parks a provider.Flush call until released (a blocking provider needs no hook in /repo)
type gate struct {
	armed   bool
	fail    bool
	parked  chan struct{}
	release chan struct{}
}

func (g *gate) pass() error {
	if g == nil || !g.armed {
		return nil
	}
	g.armed = false
	close(g.parked)
	<-g.release
	if g.fail {
		return errors.New("injected provider failure")
	}
	return nil
}

type userRec struct {
	call Val
	g    *gate
}

func (p *userRec) LoadAll() ([]*auth.User, error) { return auth.JSON.LoadAll() }
func (p *userRec) Flush(full, saves, removes []*auth.User) error {
	sn, rn := []Val{}, []Val{}
	for _, u := range saves {
		sn = append(sn, S(u.Name))
	}
	for _, u := range removes {
		rn = append(rn, S(u.Name))
	}
	p.call = L(L(encUsers(full), L(sn...), L(rn...)))
	if err := p.g.pass(); err != nil {
		return err
	}
	return auth.JSON.Flush(full, saves, removes)
}

type userTable struct {
	rec *userRec
	g   *gate
}

func (t *userTable) gateOf() *gate { return t.g }
func (t *userTable) flushErr() (Val, error) {
	rec := t.rec
	rec.call = L()
	err := auth.Flush()
	return rec.call, err
}

func (t *userTable) configure(file string) {
	if err := auth.JSON.Configure(map[string]interface{}{"file": file}); err != nil {
		panic(err)
	}
}
func (t *userTable) reset() {
	if t.g == nil {
		t.g = &gate{}
	}
	rec := &userRec{g: t.g}
	t.rec = rec
	auth.Reset(rec)
}
func (t *userTable) all() Val { return encUsers(auth.All()) }
func (t *userTable) apply(op Val) Val {
	switch op.At(0).Int() {
	case 0:
		err := auth.Save(decUser(op.At(1).At(0)), op.At(1).At(1).Bool())
		return L(I(0), Bo(err == nil))
	case 1:
		auth.Del(op.At(1).Str())
		return L(I(1))
	case 2:
		u := auth.Get(op.At(1).Str())
		if u == nil {
			return L(I(2), L())
		}
		return L(I(2), L(encUser(u)))
	default:
		return L(I(3), t.all())
	}
}
func (t *userTable) flush() Val {
	t.rec.call = L()
	if err := auth.Flush(); err != nil {
		panic(err)
	}
	return t.rec.call
}
func (t *userTable) loadRaw() (Val, error) {
	us, err := auth.JSON.LoadAll()
	if err != nil {
		return L(), err
	}
	return encUsers(us), nil
}

type routeRec struct {
	call Val
	g    *gate
}

func (p *routeRec) LoadAll() ([]*route.Route, error) { return route.JSON.LoadAll() }
func (p *routeRec) Flush(full, saves, removes []*route.Route) error {
	sn, rn := []Val{}, []Val{}
	for _, r := range saves {
		sn = append(sn, S(r.Pattern))
	}
	for _, r := range removes {
		rn = append(rn, S(r.Pattern))
	}
	p.call = L(L(encRoutes(full), L(sn...), L(rn...)))
	if err := p.g.pass(); err != nil {
		return err
	}
	return route.JSON.Flush(full, saves, removes)
}

type routeTable struct {
	rec *routeRec
	g   *gate
}

func (t *routeTable) gateOf() *gate { return t.g }
func (t *routeTable) flushErr() (Val, error) {
	rec := t.rec
	rec.call = L()
	err := route.Flush()
	return rec.call, err
}

func (t *routeTable) configure(file string) {
	if err := route.JSON.Configure(map[string]interface{}{"file": file}); err != nil {
		panic(err)
	}
}
func (t *routeTable) reset() {
	if t.g == nil {
		t.g = &gate{}
	}
	rec := &routeRec{g: t.g}
	t.rec = rec
	route.Reset(rec)
}
func (t *routeTable) all() Val { return encRoutes(route.All()) }
func (t *routeTable) apply(op Val) Val {
	switch op.At(0).Int() {
	case 0:
		err := route.Save(decRoute(op.At(1)))
		return L(I(0), Bo(err == nil))
	case 1:
		route.Del(op.At(1).Str())
		return L(I(1))
	case 2:
		r := route.Get(op.At(1).Str())
		if r == nil {
			return L(I(2), L())
		}
		return L(I(2), L(encRoute(r)))
	default:
		return L(I(3), t.all())
	}
}
func (t *routeTable) flush() Val {
	t.rec.call = L()
	if err := route.Flush(); err != nil {
		panic(err)
	}
	return t.rec.call
}
func (t *routeTable) loadRaw() (Val, error) {
	rs, err := route.JSON.LoadAll()
	if err != nil {
		return L(), err
	}
	return encRoutes(rs), nil
}

func newTable(kind string) table {
	if kind == "u" {
		return &userTable{}
	}
	return &routeTable{}
}

// ---------------------------------------------------------------- directories
var baseDir string

func freshDir() string {
	if baseDir == "" {
		d, err := ioutil.TempDir("", "c18-")
		if err != nil {
			panic(err)
		}
		baseDir = d
	}
	os.RemoveAll(baseDir)
	data := filepath.Join(baseDir, "data")
	if err := os.MkdirAll(data, 0755); err != nil {
		panic(err)
	}
	return data
}

func exists(file string) bool { _, err := os.Stat(file); return err == nil }

// what LoadAll sees on disk: () = no file, ((entries)) otherwise
func diskView(t table, file string) Val {
	if !exists(file) {
		return L()
	}
	v, err := t.loadRaw()
	if err != nil {
		return L(S("!loaderr"), S(err.Error()))
	}
	return L(v)
}

// ---------------------------------------------------------------- histories
func history(kind string) func(Val) Val {
	return func(c Val) Val {
		dir := freshDir()
		defer os.RemoveAll(baseDir)
		file := filepath.Join(dir, "table.json")
		t := newTable(kind)
		t.configure(file)
		t.reset()
		outs := []Val{}
		for _, op := range c.List() {
			switch op.At(0).Int() {
			case 4:
				call := t.flush()
				outs = append(outs, L(I(4), call, diskView(t, file)))
			case 5:
				t.reset()
				outs = append(outs, L(I(5), t.all()))
			default:
				outs = append(outs, t.apply(op))
			}
		}
		return L(outs...)
	}
}

func runOps(t table, ops Val) {
	for _, op := range ops.List() {
		switch op.At(0).Int() {
		case 4:
			t.flush()
		case 5:
			t.reset()
		default:
			t.apply(op)
		}
	}
}

func readOpt(file string) (Val, []byte) {
	b, err := ioutil.ReadFile(file)
	if err != nil {
		return L(), nil
	}
	return L(B(b)), b
}

// case (ops_old ops_delta) -> (old_file new_bytes): the bytes the two flushes leave on disk
func encodings(kind string) func(Val) Val {
	return func(c Val) Val {
		dir := freshDir()
		defer os.RemoveAll(baseDir)
		file := filepath.Join(dir, "table.json")
		t := newTable(kind)
		t.configure(file)
		t.reset()
		runOps(t, c.At(0))
		t.flush()
		old, _ := readOpt(file)
		t.reset()
		runOps(t, c.At(1))
		t.flush()
		_, nb := readOpt(file)
		return L(old, B(nb))
	}
}

// case (ops_old ops_delta ks): the JSON laws on the real decoder.  After the two flushes the
// target is overwritten with its own prefixes (what the pre-repair write sequence could leave
// behind) and loaded by a fresh provider; k = -1 is the complete file.
func torn(kind string) func(Val) Val {
	return func(c Val) Val {
		dir := freshDir()
		defer os.RemoveAll(baseDir)
		file := filepath.Join(dir, "table.json")
		t := newTable(kind)
		t.configure(file)
		t.reset()
		runOps(t, c.At(0))
		t.flush()
		t.reset()
		runOps(t, c.At(1))
		t.flush()
		_, full := readOpt(file)
		if !exists(file) {
			return L()
		}
		outs := []Val{}
		for _, kv := range c.At(2).List() {
			k := int(kv.Int())
			if k < 0 || k >= len(full) {
				continue
			}
			if err := ioutil.WriteFile(file, full[:k], 0644); err != nil {
				panic(err)
			}
			outs = append(outs, L(I(int64(k)), loadFresh(kind, file)))
		}
		if err := ioutil.WriteFile(file, full, 0644); err != nil {
			panic(err)
		}
		outs = append(outs, L(I(-1), loadFresh(kind, file)))
		return L(outs...)
	}
}

// ---------------------------------------------------------------- crash experiment
// snapshot of the data directory: content of the target (or absent) and of every other file
func snapshot(dir, file string) (tgt Val, others []Val, names []string) {
	tgt = L()
	ents, _ := ioutil.ReadDir(dir)
	ns := []string{}
	for _, e := range ents {
		ns = append(ns, e.Name())
	}
	sort.Strings(ns)
	for _, n := range ns {
		b, err := ioutil.ReadFile(filepath.Join(dir, n))
		if err != nil {
			continue
		}
		if n == filepath.Base(file) {
			tgt = L(B(b))
		} else {
			others = append(others, B(b))
			names = append(names, n)
		}
	}
	return
}

// a restarted server: fresh provider on the file; () when LoadAll fails (Reset panics: the server dies at start)
func loadFresh(kind, file string) (out Val) {
	defer func() {
		if recover() != nil {
			out = L()
		}
	}()
	t := newTable(kind)
	t.configure(file)
	t.reset()
	return L(t.all())
}

func restore(dir, file string, old []byte, had bool) {
	os.RemoveAll(dir)
	os.MkdirAll(dir, 0755)
	if had {
		if err := ioutil.WriteFile(file, old, 0644); err != nil {
			panic(err)
		}
	}
}

func runChild(kind, file, logf, point string, delta Val) {
	os.Remove(logf)
	cmd := exec.Command(os.Args[0], "c18child", kind, file, logf, point, delta.String())
	cmd.Stdin = nil
	out, err := cmd.CombinedOutput()
	if point == "" && err != nil {
		panic(fmt.Sprintf("child failed: %v %s", err, out))
	}
	if point != "" {
		// it must have died from the kill at the crash point
		if ee, ok := err.(*exec.ExitError); !ok || ee.ProcessState.Sys().(syscall.WaitStatus).Signal() != syscall.SIGKILL {
			panic(fmt.Sprintf("child did not die at %s: %v %s", point, err, out))
		}
	}
}

func readLog(logf string) []string {
	b, _ := ioutil.ReadFile(logf)
	out := []string{}
	for _, l := range strings.Split(string(b), "\n") {
		if l != "" {
			out = append(out, l)
		}
	}
	return out
}

func state(i, k int, kind, dir, file string) Val {
	tgt, others, _ := snapshot(dir, file)
	var tmp Val
	switch len(others) {
	case 0:
		tmp = L()
	case 1:
		tmp = L(others[0])
	default:
		tmp = L(others...) // more than one stray file: differs from every model state
	}
	return L(I(int64(i)), I(int64(k)), tgt, tmp, loadFresh(kind, file))
}

func crash(kind string) func(Val) Val {
	return func(c Val) Val {
		dir := freshDir()
		defer os.RemoveAll(baseDir)
		file := filepath.Join(dir, "table.json")
		logf := filepath.Join(baseDir, "log")
		t := newTable(kind)
		t.configure(file)
		t.reset()
		runOps(t, c.At(0))
		t.flush()
		_, old := readOpt(file)
		had := exists(file)
		delta := c.At(1)
		ks := []int{}
		for _, k := range c.At(2).List() {
			ks = append(ks, int(k.Int()))
		}

		// a complete run: the sequence of hook points the flush passes
		restore(dir, file, old, had)
		runChild(kind, file, logf, "", delta)
		points := readLog(logf)
		names := []Val{}
		for _, p := range points {
			names = append(names, S(strings.TrimPrefix(strings.TrimPrefix(p, "jsonfile:"), "after-")))
		}
		if len(points) == 0 {
			names = append(names, S("begin")) // no provider call: nothing to crash in
		}

		states := []Val{}
		if len(points) == 0 {
			states = append(states, (state(0, 0, kind, dir, file)))
		}
		var prevT Val
		var prevO []Val
		var prevN []string
		for j, p := range points {
			restore(dir, file, old, had)
			runChild(kind, file, logf, p, delta)
			if strings.HasSuffix(p, "after-write") && j > 0 {
				// the file being written: the one whose content changed since the previous point
				curT, curO, curN := snapshot(dir, file)
				target := ""
				var full []byte
				if curT.String() != prevT.String() && len(curT.List()) == 1 {
					target, full = file, curT.At(0).Bytes()
				} else {
					for x := range curO {
						if x >= len(prevO) || prevN[x] != curN[x] || string(prevO[x].Bytes()) != string(curO[x].Bytes()) {
							target, full = filepath.Join(dir, curN[x]), curO[x].Bytes()
						}
					}
				}
				if target != "" {
					for _, k := range ks {
						if k <= 0 || k >= len(full) {
							continue
						}
						if err := ioutil.WriteFile(target, full[:k], 0644); err != nil {
							panic(err)
						}
						states = append(states, (state(j-1, k, kind, dir, file)))
					}
					if err := ioutil.WriteFile(target, full, 0644); err != nil {
						panic(err)
					}
				}
			}
			states = append(states, (state(j, 0, kind, dir, file)))
			prevT, prevO, prevN = snapshot(dir, file)
		}
		return L(Bo(had), L(names...), L(states...))
	}
}

// ---------------------------------------------------------------- schedules with a Flush in flight
// any op of the histories, on whatever goroutine
func applyAny(t table, file string, op Val) Val {
	switch op.At(0).Int() {
	case 4:
		call, err := t.flushErr()
		if err != nil {
			return L(I(4), L(S("!flusherr")), L())
		}
		return L(I(4), call, diskView(t, file))
	case 5:
		t.reset()
		return L(I(5), t.all())
	default:
		return t.apply(op)
	}
}

//go:noinline
func c18AsyncOp(t table, file string, op Val, ch chan Val) {
	ch <- Safely(func(Val) Val { return applyAny(t, file, op) }, op)
}

// is the goroutine running c18AsyncOp waiting for a lock?
func asyncBlockedOnLock() bool {
	buf := make([]byte, 1<<20)
	n := runtime.Stack(buf, true)
	for _, g := range strings.Split(string(buf[:n]), "\n\n") {
		if strings.Contains(g, "main.c18AsyncOp") {
			hdr := g
			if i := strings.Index(g, "\n"); i >= 0 {
				hdr = g[:i]
			}
			return strings.Contains(hdr, "Lock") || strings.Contains(hdr, "semacquire")
		}
	}
	return false
}

func schedule(kind string) func(Val) Val {
	return func(c Val) Val {
		if os.Getenv("C18_DEBUG") != "" {
			defer func() {
				if r := recover(); r != nil {
					buf := make([]byte, 1<<16)
					n := runtime.Stack(buf, false)
					fmt.Fprintf(os.Stderr, "%v\n%s\n", r, buf[:n])
					panic(r)
				}
			}()
		}
		dir := freshDir()
		defer os.RemoveAll(baseDir)
		file := filepath.Join(dir, "table.json")
		t := newTable(kind)
		t.configure(file)
		t.reset()
		g := t.gateOf()
		inflight := false
		var flushDone chan error
		var pending chan Val
		finish := func() (bool, Val) { // release the parked Flush, wait for it and for the blocked call
			close(g.release)
			err := <-flushDone
			inflight = false
			res := L()
			if pending != nil {
				res = L(<-pending)
				pending = nil
			}
			return err != nil, res
		}
		defer func() {
			if inflight {
				finish()
			}
		}()
		outs := []Val{}
		for _, e := range c.List() {
			switch e.At(0).Int() {
			case 6:
				if inflight {
					outs = append(outs, L(I(9)))
					continue
				}
				g.armed, g.fail = true, !e.At(1).Bool()
				g.parked, g.release = make(chan struct{}), make(chan struct{})
				flushDone = make(chan error, 1)
				go func() { _, err := t.flushErr(); flushDone <- err }()
				select {
				case <-g.parked:
					inflight = true
					outs = append(outs, L(I(6), I(1)))
				case <-flushDone:
					g.armed = false
					outs = append(outs, L(I(6), I(0)))
				}
			case 7:
				if !inflight {
					outs = append(outs, L(I(7), I(0), L(applyAny(t, file, e.At(1)))))
					continue
				}
				if pending != nil {
					outs = append(outs, L(I(9)))
					continue
				}
				ch := make(chan Val, 1)
				go c18AsyncOp(t, file, e.At(1), ch)
				deadline := time.Now().Add(3 * time.Second)
				decided := false
				for !decided {
					select {
					case res := <-ch:
						outs = append(outs, L(I(7), I(0), L(res)))
						decided = true
					default:
						if asyncBlockedOnLock() || time.Now().After(deadline) {
							pending = ch
							outs = append(outs, L(I(7), I(1), L()))
							decided = true
						} else {
							time.Sleep(100 * time.Microsecond)
						}
					}
				}
			case 8:
				if !inflight {
					outs = append(outs, L(I(9)))
					continue
				}
				failed, res := finish()
				outs = append(outs, L(I(8), Bo(failed), res))
			default:
				if inflight {
					outs = append(outs, L(I(9)))
					continue
				}
				switch e.At(0).Int() {
				case 4:
					call := t.flush()
					outs = append(outs, L(I(4), call, diskView(t, file)))
				case 5:
					t.reset()
					outs = append(outs, L(I(5), t.all()))
				default:
					outs = append(outs, t.apply(e))
				}
			}
		}
		return L(outs...)
	}
}

// ---------------------------------------------------------------- several flushes, crashes in between
var pointNames = []string{"jsonfile:begin", "jsonfile:after-create", "jsonfile:after-write",
	"jsonfile:after-sync", "jsonfile:after-close", "jsonfile:after-rename"}

// a child that may or may not reach its crash point (nothing pending: no provider call)
func runChildLoose(kind, file, logf, point string, delta Val) {
	os.Remove(logf)
	cmd := exec.Command(os.Args[0], "c18child", kind, file, logf, point, delta.String())
	out, err := cmd.CombinedOutput()
	if err == nil {
		return
	}
	if ee, ok := err.(*exec.ExitError); ok && point != "" && ee.ProcessState.Sys().(syscall.WaitStatus).Signal() == syscall.SIGKILL {
		return
	}
	panic(fmt.Sprintf("child failed: %v %s", err, out))
}

func dirMap(dir string) map[string]string {
	m := map[string]string{}
	ents, _ := ioutil.ReadDir(dir)
	for _, e := range ents {
		if b, err := ioutil.ReadFile(filepath.Join(dir, e.Name())); err == nil {
			m[e.Name()] = string(b)
		}
	}
	return m
}

// case (ops_old rounds) with round = (delta i k): the bytes each round's flush writes; a round whose
// crash label is before the rename (i < 5) does not take effect
func roundEncodings(kind string) func(Val) Val {
	return func(c Val) Val {
		dir := freshDir()
		defer os.RemoveAll(baseDir)
		file := filepath.Join(dir, "table.json")
		t := newTable(kind)
		t.configure(file)
		t.reset()
		runOps(t, c.At(0))
		t.flush()
		old, _ := readOpt(file)
		datas := []Val{}
		for _, r := range c.At(1).List() {
			_, prev := readOpt(file)
			had := exists(file)
			t.reset()
			runOps(t, r.At(0))
			t.flush()
			_, nb := readOpt(file)
			datas = append(datas, B(nb))
			if r.At(1).Int() < 5 {
				restore(dir, file, prev, had)
			}
		}
		return L(old, L(datas...))
	}
}

// case (ops_old rounds old_file datas): every round is a child process on the directory as the previous
// round left it (stray temporary files included); it dies at label (i, k); i = 5: it completes
func recrash(kind string) func(Val) Val {
	return func(c Val) Val {
		dir := freshDir()
		defer os.RemoveAll(baseDir)
		file := filepath.Join(dir, "table.json")
		logf := filepath.Join(baseDir, "log")
		t := newTable(kind)
		t.configure(file)
		t.reset()
		runOps(t, c.At(0))
		t.flush()
		outs := []Val{}
		for _, r := range c.At(1).List() {
			i, k := int(r.At(1).Int()), int(r.At(2).Int())
			pre := dirMap(dir)
			point := ""
			if i >= 0 && i < 5 {
				point = pointNames[i]
			}
			if k > 0 {
				point = pointNames[2]
			}
			runChildLoose(kind, file, logf, point, r.At(0))
			if k > 0 {
				// the torn write: the file that is new or changed since the round began keeps k bytes
				for name, content := range dirMap(dir) {
					if old, ok := pre[name]; (!ok || old != content) && k < len(content) {
						if err := ioutil.WriteFile(filepath.Join(dir, name), []byte(content[:k]), 0644); err != nil {
							panic(err)
						}
					}
				}
			}
			tgt, others, _ := snapshot(dir, file)
			outs = append(outs, L(tgt, L(others...), loadFresh(kind, file)))
		}
		return L(outs...)
	}
}

// the second server of the crash experiment, in its own process
func childMain() {
	kind, file, logf, point := os.Args[2], os.Args[3], os.Args[4], os.Args[5]
	delta := ParseVal(os.Args[6])
	verifhook.SetCrash(func(name string) {
		if !strings.HasPrefix(name, "jsonfile:") {
			return
		}
		f, err := os.OpenFile(logf, os.O_CREATE|os.O_APPEND|os.O_WRONLY, 0644)
		if err == nil {
			f.WriteString(name + "\n")
			f.Close()
		}
		if name == point {
			syscall.Kill(os.Getpid(), syscall.SIGKILL)
			select {}
		}
	})
	t := newTable(kind)
	t.configure(file)
	t.reset()
	runOps(t, delta)
	t.flush()
	os.Exit(0)
}

var commands = map[string]func(Val) Val{
	"C18_users":    history("u"),
	"C18_routes":   history("r"),
	"C18_uenc":     encodings("u"),
	"C18_renc":     encodings("r"),
	"C18_usched":   schedule("u"),
	"C18_rsched":   schedule("r"),
	"C18_uencs":    roundEncodings("u"),
	"C18_rencs":    roundEncodings("r"),
	"C18_urecrash": recrash("u"),
	"C18_rrecrash": recrash("r"),
	"C18_utorn":    torn("u"),
	"C18_rtorn":    torn("r"),
	"C18_ucrash":   crash("u"),
	"C18_rcrash":   crash("r"),
}

func main() {
	if len(os.Args) > 1 && os.Args[1] == "c18child" {
		childMain()
		return
	}
	Main(commands)
}
