// Package reghist replays a history of registry operations (the wire format of coq/Run/RunC05.v) on the
// real media package.  Used by cmd/c05 (command "C05") and cmd/c03 (command "C03_reg").
package reghist

import (
	"sync"
	"sync/atomic"
	"time"

	"github.com/cnotch/ipchub/av/format/hls"
	"github.com/cnotch/ipchub/media"
	"github.com/cnotch/scheduler"
	"github.com/cnotch/xlog"

	. "vh/lib"
)

const sdpVideo = "v=0\r\no=- 0 0 IN IP4 127.0.0.1\r\ns=t\r\nc=IN IP4 127.0.0.1\r\nt=0 0\r\n" +
	"m=video 0 RTP/AVP 96\r\na=rtpmap:96 H264/90000\r\n" +
	"a=fmtp:96 packetization-mode=1; sprop-parameter-sets=Z2QAH6zZQFAFuhAAAAMAEAAAAwPI8YMZYA==,aO+8sA==; profile-level-id=64001F\r\n" +
	"a=control:streamid=0\r\n"

// SdpNoHls: H.264 only: no TS muxer, hence no HLS playlist
const SdpNoHls = sdpVideo

// SdpH264: H.264 + AAC: the stream gets an HLS playlist
const SdpH264 = sdpVideo + "m=audio 0 RTP/AVP 97\r\na=rtpmap:97 MPEG4-GENERIC/44100/2\r\n" +
	"a=fmtp:97 profile-level-id=1;mode=AAC-hbr;sizelength=13;indexlength=3;indexdeltalength=3; config=121056E500\r\n" +
	"a=control:streamid=1\r\n"

// recConsumer records how often its Close is called (by the delivery goroutine when the consumption ends)
type recConsumer struct{ closes int32 }

func (*recConsumer) Consume(p media.Pack) {}
func (r *recConsumer) Close() error       { atomic.AddInt32(&r.closes, 1); return nil }

// Tick is the logical time unit of the histories; the real time a history takes is far below it, so
// "last access at least d ticks ago" is decided by the ticks alone
const Tick = time.Minute

// Quiet silences the library's logger once per process
var Quiet sync.Once

// the idle-close tasks posted to the scheduler belong to the history that posted them
func cancelIdleTasks() {
	for _, j := range scheduler.Jobs() {
		if _, _, ok := media.VerifIdleTask(j.Schelule()); ok {
			j.Cancel()
		}
	}
}

// History replays (variant ops) and returns (answer_1 ... answer_n end) where end is the per-stream
// vector (live attached_total closed_calls): whether the stream is StreamOK, how many attach operations
// on it succeeded, and how many of those consumers have had Close called.
func History(c Val) Val {
	Quiet.Do(func() { xlog.ReplaceGlobal(xlog.New(xlog.NewNopCore())) })
	media.VerifResetRegistry()
	cancelIdleTasks()
	defer cancelIdleTasks()
	var streams []*media.Stream
	idOf := func(s *media.Stream) Val {
		for i, x := range streams {
			if x == s {
				return L(I(int64(i)))
			}
		}
		return L(I(-1))
	}
	type att struct {
		rtp, flv []media.CID
		recs     []*recConsumer // the consumers of the successful attaches
		detached int
		segs     int // segments added to the playlist so far
	}
	atts := map[int]*att{}
	// the playlist of a live stream that has one (the idle task and the HLS service see no other)
	playlist := func(i int) *hls.Playlist {
		if i < 0 || i >= len(streams) || media.VerifStatus(streams[i]) != media.StreamOK {
			return nil
		}
		if h := streams[i].Hlsable(); h != nil {
			return h.(*hls.Playlist)
		}
		return nil
	}
	outs := []Val{}
	for _, op := range c.At(1).List() {
		a := op.At(1)
		i := int(a.Int())
		valid := i >= 0 && i < len(streams)
		switch op.At(0).Int() {
		case 0:
			sdp := SdpNoHls
			if op.At(2).Bool() {
				sdp = SdpH264
			}
			ns := media.NewStream(a.Str(), sdp)
			if (ns.Hlsable() != nil) != op.At(2).Bool() {
				panic("reghist: HLS capability of the test stream is not what the case asked for")
			}
			streams = append(streams, ns)
			atts[len(streams)-1] = &att{}
			outs = append(outs, L(I(0)))
		case 1:
			if valid {
				media.Regist(streams[i])
			}
			outs = append(outs, L(I(0)))
		case 2:
			if valid {
				media.Unregist(streams[i])
			}
			outs = append(outs, L(I(0)))
		case 3:
			if valid {
				streams[i].Close()
			}
			outs = append(outs, L(I(0)))
		case 4:
			s := media.Get(a.Str())
			if s == nil {
				outs = append(outs, L(I(1), L()))
			} else {
				outs = append(outs, L(I(1), idOf(s)))
			}
		case 5:
			sc, cc := media.Count()
			outs = append(outs, L(I(2), I(int64(sc)), I(int64(cc))))
		case 6:
			_, infos := media.Infos("", 1000, false)
			ps := []Val{}
			for _, si := range infos {
				ps = append(ps, S(si.Path))
			}
			outs = append(outs, L(I(3), L(ps...)))
		case 7:
			if valid {
				pt := media.RTPPacket
				if op.At(2).Bool() {
					pt = media.FLVPacket
				}
				rec := &recConsumer{}
				cid := streams[i].StartConsume(rec, pt, "reghist")
				if media.VerifStatus(streams[i]) == media.StreamOK {
					if op.At(2).Bool() {
						atts[i].flv = append(atts[i].flv, cid)
					} else {
						atts[i].rtp = append(atts[i].rtp, cid)
					}
					atts[i].recs = append(atts[i].recs, rec)
				}
			}
			outs = append(outs, L(I(0)))
		case 8:
			if valid && media.VerifStatus(streams[i]) == media.StreamOK {
				l := &atts[i].rtp
				if op.At(2).Bool() {
					l = &atts[i].flv
				}
				if len(*l) > 0 {
					streams[i].StopConsume((*l)[len(*l)-1])
					*l = (*l)[:len(*l)-1]
					atts[i].detached++
				}
			}
			outs = append(outs, L(I(0)))
		case 10:
			media.UnregistAll()
			outs = append(outs, L(I(0)))
		case 11: // the clock advances by a ticks: every playlist's last access is that much older
			if d := a.Int(); d > 0 {
				for _, s := range streams {
					if h := s.Hlsable(); h != nil {
						hls.VerifShiftAccess(h.(*hls.Playlist), time.Duration(d)*Tick)
					}
				}
			}
			outs = append(outs, L(I(0)))
		case 12: // a segment is finished
			if pl := playlist(i); pl != nil {
				hls.VerifAddSegment(pl, atts[i].segs, 1.0)
				atts[i].segs++
			}
			outs = append(outs, L(I(0)))
		case 13: // playlist request
			ok := false
			if pl := playlist(i); pl != nil {
				_, err := pl.M3u8("")
				ok = err == nil
			}
			outs = append(outs, L(I(5), Bo(ok)))
		case 14: // segment request
			ok := false
			if pl := playlist(i); pl != nil {
				_, _, err := pl.Segment(int(op.At(2).Int()))
				ok = err == nil
			}
			outs = append(outs, L(I(5), Bo(ok)))
		case 15: // the scheduler runs every pending idle-close task of the registry once (Regist posts them)
			for _, j := range scheduler.Jobs() {
				if _, _, ok := media.VerifIdleTask(j.Schelule()); ok {
					j.Job().Run()
				}
			}
			outs = append(outs, L(I(0)))
		default: // 9: one run of the idle task with a period of At(2) ticks
			closed := false
			if valid && media.VerifStatus(streams[i]) == media.StreamOK {
				closed = media.VerifIdleDecision(streams[i], time.Duration(op.At(2).Int())*Tick, media.StreamNoConsumer)
			}
			outs = append(outs, L(I(4), Bo(closed)))
		}
	}
	// Consumer.Close is called by the consumer's delivery goroutine after its consumption was closed:
	// give those goroutines time.  What the implementation's own state says is due (every consumer of a
	// stream that is not StreamOK, the detached ones of a live stream) is only used to stop waiting
	// early; the numbers reported are the recorded calls.
	closes := func(i int) int {
		n := 0
		for _, r := range atts[i].recs {
			n += int(atomic.LoadInt32(&r.closes))
		}
		return n
	}
	deadline := time.Now().Add(300 * time.Millisecond)
	for {
		pending := false
		for i, s := range streams {
			due := atts[i].detached
			if media.VerifStatus(s) != media.StreamOK {
				due = len(atts[i].recs)
			}
			if closes(i) < due {
				pending = true
			}
		}
		if !pending || time.Now().After(deadline) {
			break
		}
		time.Sleep(200 * time.Microsecond)
	}
	time.Sleep(2 * time.Millisecond) // a call too many would show up now
	end := []Val{}
	for i, s := range streams {
		end = append(end, L(Bo(media.VerifStatus(s) == media.StreamOK), I(int64(len(atts[i].recs))), I(int64(closes(i)))))
	}
	outs = append(outs, L(end...))
	for _, s := range streams {
		s.Close()
	}
	media.VerifResetRegistry()
	return L(outs...)
}
