// Package sched replays a model schedule on the real code: goroutines park at
// verifhook points until the controller releases them, and after every
// release the controller waits until every goroutine in the process is parked,
// blocked or gone ("settled").
package sched

import (
	"bytes"
	"fmt"
	"runtime"
	"strconv"
	"strings"
	"sync"
	"time"

	"github.com/cnotch/ipchub/utils/verifhook"
)

// Thread is one controlled goroutine.
type Thread struct {
	Name string
	goid int64
	at   string // point where it is parked ("" = not parked)
	atID uint32
	rel  chan struct{}
	done bool
}

// Ctl is the schedule controller.
type Ctl struct {
	mu      sync.Mutex
	threads map[string]*Thread
	byGoid  map[int64]*Thread
	// Role names the thread of a not-yet-known goroutine arriving at a point ("" = leave it alone).
	Role func(point string, id uint32) string
	// Allow says whether the thread parks at the point (nil = every point).
	Allow func(thread, point string) bool
	// Skip lets the first n arrivals at a point pass through.
	Skip map[string]int
	self int64
	off  bool
}

func goid() int64 {
	var buf [64]byte
	n := runtime.Stack(buf[:], false)
	f := strings.Fields(string(buf[:n]))
	id, _ := strconv.ParseInt(f[1], 10, 64)
	return id
}

// New installs a controller as the verifhook point handler.
func New() *Ctl {
	c := &Ctl{threads: map[string]*Thread{}, byGoid: map[int64]*Thread{}, Skip: map[string]int{}, self: goid()}
	verifhook.SetPoint(c.point)
	return c
}

func (c *Ctl) point(name string, id uint32) {
	g := goid()
	c.mu.Lock()
	if c.off {
		c.mu.Unlock()
		return
	}
	th := c.byGoid[g]
	if th == nil {
		tn := ""
		if c.Role != nil {
			tn = c.Role(name, id)
		}
		if tn == "" {
			c.mu.Unlock()
			return
		}
		th = c.threads[tn]
		if th == nil {
			th = &Thread{Name: tn}
			c.threads[tn] = th
		}
		th.goid = g
		c.byGoid[g] = th
	}
	if c.Allow != nil && !c.Allow(th.Name, name) {
		c.mu.Unlock()
		return
	}
	if n := c.Skip[name]; n > 0 {
		c.Skip[name] = n - 1
		c.mu.Unlock()
		return
	}
	th.at, th.atID = name, id
	ch := make(chan struct{})
	th.rel = ch
	c.mu.Unlock()
	<-ch
}

// Here is a harness-level point for the calling controlled goroutine.
func (c *Ctl) Here(name string) { c.point(name, 0) }

// Go starts a controlled goroutine that parks at "h.start" before running f.
func (c *Ctl) Go(name string, f func()) {
	th := &Thread{Name: name}
	c.mu.Lock()
	c.threads[name] = th
	c.mu.Unlock()
	ready := make(chan struct{})
	go func() {
		g := goid()
		c.mu.Lock()
		th.goid = g
		c.byGoid[g] = th
		c.mu.Unlock()
		close(ready)
		defer func() {
			c.mu.Lock()
			th.done = true
			th.at = ""
			c.mu.Unlock()
		}()
		c.point("h.start", 0)
		f()
	}()
	<-ready
	c.Settle()
}

var blockedStates = []string{"chan receive", "chan send", "select", "sync.Cond.Wait", "sync.Mutex.Lock",
	"sync.RWMutex", "semacquire", "IO wait", "sleep", "sync.WaitGroup.Wait", "finalizer wait", "GC worker",
	"GC sweep wait", "GC scavenge wait", "force gc"}

func goroutineStates() map[int64]string {
	buf := make([]byte, 1<<20)
	for {
		n := runtime.Stack(buf, true)
		if n < len(buf) {
			buf = buf[:n]
			break
		}
		buf = make([]byte, 2*len(buf))
	}
	out := map[int64]string{}
	for _, blk := range bytes.Split(buf, []byte("\n\n")) {
		if !bytes.HasPrefix(blk, []byte("goroutine ")) {
			continue
		}
		line := blk
		if i := bytes.IndexByte(blk, '\n'); i >= 0 {
			line = blk[:i]
		}
		// goroutine 12 [chan receive, 2 minutes]:
		sp := bytes.IndexByte(line[10:], ' ')
		if sp < 0 {
			continue
		}
		id, _ := strconv.ParseInt(string(line[10:10+sp]), 10, 64)
		lb := bytes.IndexByte(line, '[')
		rb := bytes.LastIndexByte(line, ']')
		if lb < 0 || rb < lb {
			continue
		}
		out[id] = string(line[lb+1 : rb])
	}
	return out
}

func isBlocked(state string) bool {
	for _, b := range blockedStates {
		if strings.HasPrefix(state, b) {
			return true
		}
	}
	return false
}

// Settle waits until no goroutine other than the caller can run.
func (c *Ctl) Settle() {
	deadline := time.Now().Add(20 * time.Second)
	stable := 0
	for {
		runtime.Gosched()
		st := goroutineStates()
		ok := true
		for g, s := range st {
			if g == c.self {
				continue
			}
			if !isBlocked(s) {
				// a goroutine we do not control that sits in a system call (os/signal loop) never runs our code
				c.mu.Lock()
				_, ours := c.byGoid[g]
				c.mu.Unlock()
				if strings.HasPrefix(s, "syscall") && !ours {
					continue
				}
				ok = false
				break
			}
		}
		if ok {
			stable++
			if stable >= 3 {
				c.mu.Lock()
				for _, th := range c.threads {
					if _, alive := st[th.goid]; !alive && th.goid != 0 {
						th.done = true
						th.at = ""
					}
				}
				c.mu.Unlock()
				return
			}
		} else {
			stable = 0
		}
		if time.Now().After(deadline) {
			panic(fmt.Sprintf("sched: settle timeout; states=%v", st))
		}
		time.Sleep(30 * time.Microsecond)
	}
}

// Step releases the named thread from its point and waits for the system to settle.
// It reports false (a skipped step) when the thread is not parked at a point.
func (c *Ctl) Step(name string) bool {
	c.mu.Lock()
	th := c.threads[name]
	if th == nil || th.done || th.at == "" {
		c.mu.Unlock()
		return false
	}
	th.at = ""
	ch := th.rel
	th.rel = nil
	c.mu.Unlock()
	close(ch)
	c.Settle()
	return true
}

// Status: "" unknown thread, "done", "blocked" (alive, not at a point) or the point name.
func (c *Ctl) Status(name string) string {
	c.mu.Lock()
	defer c.mu.Unlock()
	th := c.threads[name]
	if th == nil {
		return ""
	}
	if th.done {
		return "done"
	}
	if th.at == "" {
		return "blocked"
	}
	return th.at
}

// AtID returns the id carried by the point where the thread is parked.
func (c *Ctl) AtID(name string) uint32 {
	c.mu.Lock()
	defer c.mu.Unlock()
	if th := c.threads[name]; th != nil {
		return th.atID
	}
	return 0
}

// Finish switches the controller off and lets every parked goroutine run free.
func (c *Ctl) Finish() {
	c.mu.Lock()
	c.off = true
	for _, th := range c.threads {
		if th.rel != nil {
			close(th.rel)
			th.rel = nil
			th.at = ""
		}
	}
	c.mu.Unlock()
	verifhook.SetPoint(nil)
	c.Settle()
}
